//! vp-harness as a library: the engine and the property modules, shared by the driver binary
//! (`src/main.rs`) and by the libFuzzer targets under /verif/fuzz.

pub mod engine;
pub mod props;

/// Entry point of the libFuzzer targets: decode `data` with the property's own structured
/// generators (the bytes are the choice stream) or as raw text, run the property's oracle, and
/// abort on a violation that is not a listed known finding.
pub fn fuzz_entry(id: &str, data: &[u8]) {
    let Some(def) = props::lookup(id) else { panic!("unknown property {id}") };
    let Some(f) = def.fuzz else { panic!("property {id} has no fuzz entry") };
    if let Some(v) = f(data) {
        let known = engine::load_known();
        if known.iter().any(|k| k.status == "known" && k.signature == v.signature) {
            return;
        }
        eprintln!("VIOLATION property={id} signature={}\n{}", v.signature, v.detail);
        std::process::abort();
    }
}

/// bytes -> choice words for `engine::Gen`
pub fn words_of(data: &[u8]) -> Vec<u32> {
    data.chunks(4)
        .map(|c| {
            let mut b = [0u8; 4];
            b[..c.len()].copy_from_slice(c);
            // spread small byte values over the whole range so that `below(n)` sees variety
            u32::from_le_bytes(b).wrapping_mul(0x9E37_79B1)
        })
        .collect()
}
