//! C07 — -print0 paths are byte-exact and survive the pipe into xargs -0.

use super::{decode, PropDef};
use crate::engine::fsx::{ref_paths, FollowMode, Kind, Node, TreeSpec, WalkOpts, HOSTILE_NAMES};
use crate::engine::proc::{find_bin, lossy, BinOpts, Ctx};
use crate::engine::xa::{rec_path, run_xargs};
use crate::engine::{fail, Gen, Outcome, Pass, Worker};
use serde::{Deserialize, Serialize};
use serde_json::{json, Value};
use std::ffi::OsString;

pub static DEF: PropDef = PropDef {
    id: "C07",
    rule: "random: trees (depth<=4, <=30 entries) whose names are arbitrary UTF-8 without '/' and NUL, up to 255 bytes - blanks-only, leading '-', newlines, quotes, backslashes, '{}', '$()', glob characters, combining and 4-byte characters, long names that push the output past 8 KiB / put a newline >1 KiB before the end of a path - under several spellings of the starting point; a quarter of the short-name cases stand in a directory with a hostile name of its own ('(2024) x', '!x', ',v', blanks, newline, quotes ...) and run the find binary from its parent, so that the starting point is that name given bare (that stream also through xargs -0 -I{}); one short-name case in eight starts from a symbolic link to the tree under -H (two thirds of them with -depth). Oracle: in-process -print0 / -print output == concatenation of reference-walk paths + terminator; then the built binaries: find ... -print0 (stdout captured) == the same bytes, and xargs -0 rec fed with them delivers exactly the path list, each once, unmodified, exit 0. Non-trivial = some name contains a blank, newline, quote, backslash, leading dash or non-ASCII character (and the pipeline sub-run was exercised for the binary tier). Distinct = distinct case JSON.",
    assumptions: &["names are valid UTF-8 (the statement's domain)", "the pipe is modelled by capturing find's stdout and feeding it to xargs' stdin (both real processes)"],
    run,
    replay,
    fuzz: None,
};

#[derive(Serialize, Deserialize, Debug, Clone)]
pub struct Case {
    pub tree: TreeSpec,
    pub root: String,
    pub pipeline: bool,
    pub depth: bool,
    /// Some(room): xargs runs under a 256 KiB stack limit (128 KiB kernel budget) with the
    /// environment padded so that about `room` bytes are left for the command line: the paths
    /// must then be spread over several invocations, sized by bytes (not characters)
    #[serde(default)]
    pub xargs_room: Option<u32>,
    /// Some(t): the tree stands in the directory `c/<t>` and find runs (as a process) with `c` as
    /// its working directory, so that the starting point, spelled `root`, begins with the hostile
    /// name itself (blanks, a leading '(' '!' ',' ')', newline, quote ...)
    #[serde(default)]
    pub top: Option<String>,
    /// the starting point is a symbolic link `c/ln` to the tree's top directory, followed with -H
    /// (and spelled as given - no slash is to appear behind it), also under -depth
    #[serde(default)]
    pub hlink: bool,
}

fn gen_hostile_name(g: &mut Gen, long_mode: bool, uniform_unit: Option<&'static str>) -> String {
    let mut s = String::new();
    match g.weighted(&if long_mode { [1, 1, 8, 1] } else { [6, 3, 2, 2] }) {
        0 => s.push_str(g.pick(HOSTILE_NAMES)),
        1 => {
            for _ in 0..g.usize_in(1, 4) {
                s.push_str(g.pick(HOSTILE_NAMES));
            }
        }
        2 => {
            // long name: hostile head + padding, up to 255 bytes
            s.push_str(g.pick(&["\n", "a\nb", " ", "é", "-", "x", "'", "\\"]));
            let unit = match uniform_unit {
                Some(u) => u,
                None => g.pick(&["p", "é", "日", "q ", "𝄞"]),
            };
            let target = g.usize_in(100, 250);
            while s.len() + unit.len() <= target {
                s.push_str(unit);
            }
        }
        _ => s.push_str(g.pick(&["a", "b", "c", "file", "dir"])),
    }
    if s.is_empty() || s == "." || s == ".." || s.len() > 255 {
        s = "n".into();
    }
    s
}

pub fn gen_case(g: &mut Gen) -> Case {
    let mut nodes = vec![Node::new("c/r", Kind::Dir)];
    // one case in five is built from long names so that outputs exceed the 8 KiB pipe/buffer sizes
    let long_mode = g.chance(1, 5);
    let n = if long_mode { g.usize_in(6, 28) } else { g.usize_in(1, 28) };
    // in half of the long cases every long name is padded with the same multi-byte character, so
    // that the whole output has three or four bytes per character (a size counted in characters
    // then falls short by far more than any reserve)
    let uniform_unit: Option<&'static str> = if long_mode && g.bool() { Some(g.pick(&["日", "𝄞", "日"])) } else { None };
    for _ in 0..n {
        let dirs: Vec<String> = nodes.iter().filter(|x| x.kind == Kind::Dir && x.path.matches('/').count() < if long_mode { 10 } else { 5 }).map(|x| x.path.clone()).collect();
        let parent = if long_mode && g.chance(4, 5) { dirs.last().unwrap().clone() } else { g.pick(&dirs) };
        let name = gen_hostile_name(g, long_mode, uniform_unit);
        let path = format!("{parent}/{name}");
        if nodes.iter().any(|x| x.path == path) || path.len() > 3500 {
            continue;
        }
        let kind = match g.weighted(&if long_mode { [6, 3, 1] } else { [4, 5, 1] }) {
            0 => Kind::Dir,
            1 => Kind::File,
            _ => Kind::Link(g.pick(&["nowhere", "a b", "."]).to_string()),
        };
        nodes.push(Node::new(path, kind));
    }
    if !long_mode && g.chance(1, 4) {
        // hostile starting point, given bare
        let mut t = match g.below(3) {
            0 => g.pick(HOSTILE_NAMES).to_string(),
            1 => format!("{}{}", g.pick(&["(", ")", "!", ",", "(2024) ", "!!", ",v", " ", "\n", "'", "\"", "\\", "{}", "+", ";", "é", "%", "~", "#"]), g.pick(&["a", "x y", "", "b", "(", "!", ",", "-print", "é"])),
            _ => gen_hostile_name(g, false, None),
        };
        if t.is_empty() || t == "." || t == ".." {
            t = "(t".into();
        }
        for n in nodes.iter_mut() {
            n.path = format!("c/{t}{}", &n.path[3..]);
        }
        // a word that begins with '-' or is an operator by itself is part of the expression: such a
        // directory can only be named with something in front
        let needs_prefix = t.starts_with('-') || ["(", ")", "!", ","].contains(&t.as_str());
        let root = if needs_prefix { format!("./{t}") } else { match g.below(5) { 0 | 1 => t.clone(), 2 => format!("{t}/"), 3 => format!("{t}/."), _ => format!("{t}//") } };
        return Case { tree: TreeSpec { nodes }, root, pipeline: true, depth: g.chance(1, 4), xargs_room: None, top: Some(t), hlink: false };
    }
    if !long_mode && g.chance(1, 8) {
        nodes.push(Node::new("c/ln", Kind::Link("r".into())));
        return Case { top: None, hlink: true, tree: TreeSpec { nodes }, root: g.pick(&["c/ln", "c/ln", "./c/ln", "c//ln"]).to_string(), pipeline: g.chance(1, 3), depth: g.chance(2, 3), xargs_room: None };
    }
    Case { top: None, hlink: false, tree: TreeSpec { nodes }, root: g.pick(&["c/r", "c/r/", "./c/r", "c/r/.", "c//r"]).to_string(), pipeline: if long_mode { g.chance(1, 2) } else { g.chance(1, 6) }, depth: g.chance(1, 4), xargs_room: if g.chance(1, 2) { Some(g.pick(&[6_000u32, 9_000, 14_000, 24_000, 40_000, 70_000])) } else { None } }
}

fn special(name: &str) -> bool {
    name.starts_with('-') || name.chars().any(|c| c == ' ' || c == '\t' || c == '\n' || c == '\'' || c == '"' || c == '\\' || !c.is_ascii())
}

pub fn check(ctx: &mut Ctx, c: &Case) -> Outcome {
    ctx.fresh_case_dir();
    c.tree.build();
    let wo = WalkOpts { follow: if c.hlink { FollowMode::H } else { FollowMode::P }, depth_first: c.depth, ..Default::default() };
    let (entries, _) = ref_paths(&if c.top.is_some() { format!("c/{}", c.root) } else { c.root.clone() }, &wo);
    let paths: Vec<String> = entries.iter().map(|e| if c.top.is_some() { e.path[2..].to_string() } else { e.path.clone() }).collect();
    let mut want0: Vec<u8> = vec![];
    let mut wantn: Vec<u8> = vec![];
    for p in &paths {
        want0.extend_from_slice(p.as_bytes());
        want0.push(0);
        wantn.extend_from_slice(p.as_bytes());
        wantn.push(b'\n');
    }
    let mut base: Vec<&str> = if c.hlink { vec!["-H", &c.root, "-sorted"] } else { vec![&c.root, "-sorted"] };
    if c.depth {
        base.push("-depth");
    }
    let hostile_kinds = || {
        let mut k = vec![];
        let all: String = c.tree.nodes.iter().map(|n| n.name().to_string()).collect::<Vec<_>>().join("/");
        if all.contains('\n') {
            k.push("newline");
        }
        if !all.is_ascii() {
            k.push("non-ascii");
        }
        k.join("+")
    };
    for (action, want) in [("-print0", &want0), ("-print", &wantn)] {
        if c.top.is_some() {
            break; // the working directory of the harness process is not changed: binary only
        }
        let mut a = base.clone();
        a.push(action);
        let o = ctx.find(&a);
        if let Some(p) = o.panic {
            return fail(format!("C07:panic:{}", p.split(": ").next().unwrap_or("?")), format!("find {a:?}: {p}"));
        }
        if &o.stdout != want || o.status != 0 {
            return fail(format!("C07:{action}-output-differs:in-process:{}", hostile_kinds()), format!("find {a:?}\nexpected {:?}\nobserved {:?}\nexit {} stderr {:?}", lossy(want), lossy(&o.stdout), o.status, lossy(&o.stderr)));
        }
    }
    if c.pipeline {
        let mut a: Vec<OsString> = base.iter().map(|s| OsString::from(*s)).collect();
        a.push("-print0".into());
        let f = ctx.run_bin(&find_bin(), &a, &BinOpts { cwd: c.top.as_ref().map(|_| ctx.root.join("c")), ..Default::default() });
        if !f.ordinary() || f.code != Some(0) || f.stdout != want0 {
            return fail(format!("C07:-print0-output-differs:binary:{}{}", hostile_kinds(), if c.top.is_some() { ":hostile-starting-point" } else { "" }), format!("find {a:?}\nexpected {} bytes, observed {} bytes\nexpected {:?}\nobserved {:?}\nexit {:?} stderr {:?}", want0.len(), f.stdout.len(), lossy(&want0), lossy(&f.stdout), f.code, lossy(&f.stderr)));
        }
        let mut bo = BinOpts { clear_env: true, ..Default::default() };
        if let Some(room) = c.xargs_room {
            bo.stack_limit = Some(256 << 10);
            // budget 131072 - 2048 headroom - what xargs sets aside for the name of the executed file
            // (twice PATH_MAX and an interpreter line, see its new_system) - environment; pad the
            // environment up to the wanted room
            let pad = (131_072usize - 2_048 - (2 * 4_096 + 256) - 600).saturating_sub(room as usize);
            let mut left = pad;
            let mut i = 0;
            while left > 100 {
                let n = left.min(30_000);
                bo.env.push((format!("VERIF_PAD{i}").into(), "p".repeat(n - 20).into()));
                left -= n;
                i += 1;
            }
        }
        let run = run_xargs(ctx, &["-0".into()], &[rec_path()], &f.stdout, "", bo);
        let got: Vec<Vec<u8>> = run.records.iter().flat_map(|r| r.args.clone()).collect();
        let want: Vec<Vec<u8>> = paths.iter().map(|p| p.as_bytes().to_vec()).collect();
        if run.out.code != Some(0) || got != want {
            return fail(format!("C07:xargs-0-delivery-differs:{}", hostile_kinds()), format!("find {a:?} | xargs -0 rec\nexit {:?} stderr {:?}\npaths: {:?}\ndelivered: {:?}", run.out.code, lossy(&run.out.stderr), paths, got.iter().map(|g| lossy(g)).collect::<Vec<_>>()));
        }
    }
    if c.pipeline && c.top.is_some() && paths.iter().all(|p| p.len() < 3000) {
        // the same stream through xargs -0 -I{}: one run per path, the path substituted unmodified
        let mut a: Vec<OsString> = base.iter().map(|s| OsString::from(*s)).collect();
        a.push("-print0".into());
        let run = run_xargs(ctx, &["-0".into(), "-I".into(), "{}".into()], &[rec_path(), "{}".into()], &want0, "", BinOpts { clear_env: true, ..Default::default() });
        let got: Vec<Vec<Vec<u8>>> = run.records.iter().map(|r| r.args.clone()).collect();
        let want: Vec<Vec<Vec<u8>>> = paths.iter().map(|p| vec![p.as_bytes().to_vec()]).collect();
        if run.out.code != Some(0) || got != want {
            return fail(format!("C07:xargs-0-I-delivery-differs:{}", hostile_kinds()), format!("find {a:?} | xargs -0 -I{{}} rec {{}}\nexit {:?} stderr {:?}\npaths: {:?}\ndelivered: {:?}", run.out.code, lossy(&run.out.stderr), paths, got.iter().map(|r| r.iter().map(|g| lossy(g)).collect::<Vec<_>>()).collect::<Vec<_>>()));
        }
    }
    let nt = c.tree.nodes.iter().any(|n| special(n.name()));
    Pass::new(nt)
        .class_if(c.pipeline, "binary-pipeline")
        .class_if(c.pipeline && c.xargs_room.map_or(false, |r| want0.len() > r as usize), "pipeline-needs-several-xargs-invocations")
        .class_if(want0.len() > 8192, "output-over-8KiB")
        .class_if(paths.iter().any(|p| p.find('\n').map_or(false, |i| p.len() - i > 1024)), "newline-over-1KiB-before-end")
        .class_if(c.tree.nodes.iter().any(|n| n.name().trim().is_empty()), "blank-only-name")
        .class_if(c.tree.nodes.iter().any(|n| n.name().starts_with('-')), "leading-dash")
        .class_if(c.root != "c/r" && c.top.is_none(), "root-spelled-differently")
        .class_if(c.top.is_some(), "hostile-starting-point-given-bare")
        .class_if(c.hlink, "link-starting-point-under-H")
        .class_if(c.top.as_ref().map_or(false, |t| t.starts_with(['(', ')', '!', ','])), "starting-point-begins-like-an-operator")
        .sample(json!({"root": c.root, "paths": paths.iter().take(6).collect::<Vec<_>>(), "pipeline": c.pipeline}))
        .ok()
}

fn run(w: &mut Worker) {
    w.regress::<Case>("names", check);
    w.random("names", w.tier.pick(40_000, 500_000), (60, 400), 800, gen_case, check);
}

fn replay(w: &mut Worker, _sub: &str, v: Value) -> Outcome {
    check(&mut w.ctx, &decode(v))
}
