//! C10 — -delete removes exactly the matched entries and nothing else.

use super::{decode, PropDef};
use crate::engine::fsx::{gen_tree, snapshot, Kind, Node, TreeParams, TreeSpec};
use crate::engine::proc::{find_bin, lossy, BinOpts, Ctx};
use crate::engine::{fail, inconclusive, Gen, Outcome, Pass, Worker};
use serde::{Deserialize, Serialize};
use serde_json::{json, Value};
use std::collections::BTreeSet;

pub static DEF: PropDef = PropDef {
    id: "C10",
    rule: "random: trees (<=30 nodes: files of several sizes, directories, links to files/directories inside and outside the starting point, dangling links; random modes) plus an 'outside' area that links point into x test expressions before -delete whose truth must not depend on earlier deletions (-name/-iname/-path/-type/-perm/-size, an inert -prune, !, -o, depth bounds; and tests on what removals change in a directory: -type d -links N, -newer REF with modification times set on both sides of REF) x follow mode (-P; -L/-H with links only to outside targets, each at most once). The tree is first listed with 'find -depth TESTS -print' (list L) and 'find -depth -print' (all visited), then 'find ( TESTS -delete -printf D ) -o -printf N' runs on the same tree. Oracle: removal model over L in order (non-directory: removed; directory: removed iff empty by then); snapshot(after) == snapshot(before) - removed over the WHOLE case directory (outside area included); D/N lines in visit order (truth of -delete); exit != 0 and a diagnostic iff some removal failed. Non-trivial = a symbolic link is matched, or a directory removal fails, or an unmatched entry sits beside matched ones inside a matched directory. Distinct = distinct case JSON.",
    assumptions: &[
        "listing and deleting run on the same tree (the listing run does not modify it), which is the statement's 'identical tree'",
        "-H/-L with a starting point that is itself a link to a directory is not generated here (known walkdir finding, see C02/C03)",
        "-empty and time tests are excluded before -delete: their truth can change with earlier deletions",
    ],
    run,
    replay,
    fuzz: None,
};

#[derive(Serialize, Deserialize, Debug, Clone)]
pub struct Case {
    pub tree: TreeSpec,
    /// 0 -P, 1 -H, 2 -L
    pub follow: u8,
    pub tests: Vec<String>,
    pub mindepth: Option<usize>,
    pub maxdepth: Option<usize>,
    pub via_binary: bool,
    pub explicit_depth: bool,
    /// starting points, in order (c/t, optionally c/u before or after it)
    #[serde(default)]
    pub roots: Vec<String>,
}

fn gen_tests(g: &mut Gen, names: &[String]) -> Vec<String> {
    fn atom(g: &mut Gen, names: &[String]) -> Vec<String> {
        let s = |x: &str| x.to_string();
        match g.weighted(&[5, 3, 3, 2, 2, 1, 2, 1, 3]) {
            0 => {
                let n = g.pick(names);
                let first: String = n.chars().take(1).collect();
                vec![s(if g.chance(1, 5) { "-iname" } else { "-name" }), match g.below(4) {
                    0 => n,
                    1 => format!("{first}*"),
                    2 => format!("*{first}"),
                    _ => s("*"),
                }]
            }
            1 => vec![s("-type"), g.pick(&["f", "d", "l"]).to_string()],
            2 => vec![s("-path"), format!("*{}*", g.pick(names))],
            3 => vec![s("-size"), g.pick(&["0", "+0", "-2", "1", "+1", "2k", "-1k", "1c", "+511c"]).to_string()],
            4 => vec![s("-perm"), g.pick(&["-100", "/222", "644", "-644", "/111", "755", "-0", "/4000"]).to_string()],
            5 => vec![s("-true")],
            6 => vec![s("-false")],
            // tests on attributes of a directory that change when entries below it are removed:
            // what counts is the directory as the walk met it
            8 => match g.below(3) {
                // (directories only: the link count of a file with several names changes with every name removed, whatever the implementation does)
                0 => vec![s("("), s("-type"), s("d"), s("-links"), g.pick(&["2", "+2", "-3", "3", "+1"]).to_string(), s(")")],
                1 => vec![s("-newer"), s("c/ref-mid")],
                _ => vec![s("!"), s("-newer"), s("c/ref-mid")],
            },
            // always true, and without effect under the depth-first order that -delete implies
            // (also when it stands before the -delete that switches that order on)
            _ => vec![s("-prune")],
        }
    }
    let mut t = vec![];
    let k = g.usize_in(0, 3);
    for i in 0..k {
        if i > 0 {
            match g.below(3) {
                0 => t.push("-o".to_string()),
                1 => t.push("-a".to_string()),
                _ => {}
            }
        }
        if g.chance(1, 4) {
            t.push("!".to_string());
        }
        t.extend(atom(g, names));
    }
    t
}

pub fn gen_case(g: &mut Gen) -> Case {
    let follow = g.weighted(&[6, 1, 3]) as u8;
    // outside area
    let mut nodes = vec![Node::new("c/o", Kind::Dir)];
    for (p, k) in [("c/o/d1", Kind::Dir), ("c/o/d1/x", Kind::File), ("c/o/d1/sub", Kind::Dir), ("c/o/d1/sub/y", Kind::File), ("c/o/d2", Kind::Dir), ("c/o/f1", Kind::File), ("c/o/f2", Kind::File)] {
        nodes.push(Node::new(p, k));
    }
    let params = TreeParams { max_nodes: 28, max_depth: 4, kind_w: [6, 7, 4, 0, 0, 1], cyclic_links: false, self_links: false, random_modes: false, ..Default::default() };
    let mut t = gen_tree(g, "c/t", &params);
    // links: under a following mode only outside targets (each once) or dangling
    let mut outside = vec!["c/o/d1", "c/o/d2", "c/o/f1", "c/o/f2"];
    for n in t.nodes.iter_mut() {
        if let Kind::Link(_) = n.kind {
            let want_outside = follow != 0 || g.chance(1, 3);
            if want_outside {
                if !outside.is_empty() && g.chance(3, 4) {
                    let i = g.below(outside.len() as u64) as usize;
                    let tgt = outside.remove(i);
                    n.kind = Kind::Link(crate::engine::fsx::rel_target(n.parent(), tgt));
                } else {
                    n.kind = Kind::Link("nowhere".into());
                }
            }
        }
        if n.kind == Kind::File || n.kind == Kind::Dir {
            if g.chance(1, 3) {
                n.mode = Some(g.pick(&[0o644u32, 0o600, 0o755, 0o700, 0o444, 0o4755, 0o111, 0o222, 0o664]));
            }
            if n.kind == Kind::Dir && n.mode.map_or(false, |m| m & 0o700 != 0o700) && n.path != "c/t" {
                // keep directories traversable for the listing run irrespective of who runs it
                n.mode = Some(n.mode.unwrap() | 0o700);
            }
        }
    }
    let mut roots = vec!["c/t".to_string()];
    if g.chance(1, 3) {
        let mut u = gen_tree(g, "c/u", &TreeParams { max_nodes: 8, max_depth: 3, kind_w: [5, 6, 0, 0, 0, 0], ..Default::default() });
        t.nodes.append(&mut u.nodes);
        if g.bool() {
            roots.push("c/u".into());
        } else {
            roots.insert(0, "c/u".into());
        }
    }
    let names: Vec<String> = t.nodes.iter().map(|n| n.name().to_string()).collect();
    nodes.append(&mut t.nodes);
    let tests = gen_tests(g, &names);
    let md = |g: &mut Gen| if g.chance(1, 5) { Some(g.usize_in(0, 3)) } else { None };
    let (mut mindepth, maxdepth) = (md(g), md(g));
    // under -H (and -L) the tree may be entered through a link given as starting point; the link
    // itself is kept out of the removals (-mindepth >= 1): how it should go is not the statement's subject
    if follow != 0 && g.chance(1, 6) {
        nodes.push(Node::new("c/tl", Kind::Link("t".into())));
        for r in roots.iter_mut() {
            if r == "c/t" {
                *r = "c/tl".into();
            }
        }
        mindepth = Some(mindepth.unwrap_or(1).max(1));
    }
    Case { tree: TreeSpec { nodes }, follow, tests, mindepth, maxdepth, via_binary: g.chance(1, 20), explicit_depth: g.chance(1, 4), roots }
}

fn lines(b: &[u8]) -> Vec<String> {
    lossy(b).lines().map(|s| s.to_string()).collect()
}

/// canonical key (relative to the sandbox root) of the directory entry named by `p`
fn key_of(ctx: &Ctx, p: &str) -> Option<String> {
    let (parent, name) = match p.rfind('/') {
        Some(i) => (&p[..i], &p[i + 1..]),
        None => (".", p),
    };
    let canon = std::fs::canonicalize(parent).ok()?;
    let rel = canon.strip_prefix(&ctx.root).ok()?.to_string_lossy().into_owned();
    Some(if rel.is_empty() { name.to_string() } else { format!("{rel}/{name}") })
}

pub fn check(ctx: &mut Ctx, c: &Case) -> Outcome {
    ctx.fresh_case_dir();
    c.tree.build();
    // modification times on both sides of a reference file, directories included (-newer tests)
    std::fs::write("c/ref-mid", b"").unwrap();
    crate::engine::fsx::set_times("c/ref-mid", None, Some((1_420_070_400, 0)));
    for n in &c.tree.nodes {
        let older = n.path.bytes().map(|b| b as u32).sum::<u32>() % 2 == 0;
        crate::engine::fsx::set_times(&n.path, None, Some((if older { 1_262_304_000 } else { 1_577_836_800 }, 0)));
    }
    let flag = ["-P", "-H", "-L"][c.follow as usize];
    let mut opts: Vec<String> = vec![];
    if let Some(m) = c.mindepth {
        opts.push("-mindepth".into());
        opts.push(m.to_string());
    }
    if let Some(m) = c.maxdepth {
        opts.push("-maxdepth".into());
        opts.push(m.to_string());
    }
    let tests: Vec<String> = if c.tests.is_empty() { vec!["-true".into()] } else { c.tests.clone() };
    // run A: what would be matched, and everything visited, in depth-first sorted order
    let roots: Vec<String> = if c.roots.is_empty() { vec!["c/t".to_string()] } else { c.roots.clone() };
    let mut a1: Vec<String> = vec![flag.into()];
    a1.extend(roots.iter().cloned());
    a1.push("-sorted".into());
    a1.push("-depth".into());
    a1.extend(opts.iter().cloned());
    let mut a_all = a1.clone();
    a_all.push("-print".into());
    a1.push("(".into());
    a1.extend(tests.iter().cloned());
    a1.push(")".into());
    a1.push("-print".into());
    let r1 = ctx.find(&a1.iter().map(|s| s.as_str()).collect::<Vec<_>>());
    let rall = ctx.find(&a_all.iter().map(|s| s.as_str()).collect::<Vec<_>>());
    if r1.panic.is_some() || rall.panic.is_some() || r1.status != 0 || rall.status != 0 {
        return Pass::discard("listing run failed (tree not listable cleanly)");
    }
    let matched = lines(&r1.stdout);
    let visited = lines(&rall.stdout);
    // The set that may be touched at all is fixed independently of the code under test: the
    // reference walk of the starting points under this follow mode (a walk that strays through a
    // link it must not follow would otherwise list and delete consistently, and go unnoticed).
    {
        use crate::engine::fsx::{ref_paths, FollowMode, WalkOpts};
        let fm = [FollowMode::P, FollowMode::H, FollowMode::L][c.follow as usize];
        let wo = WalkOpts { follow: fm, depth_first: true, min_depth: c.mindepth.unwrap_or(0), max_depth: c.maxdepth.unwrap_or(usize::MAX), as_other: false };
        let mut reference: Vec<String> = vec![];
        let mut loops = false;
        for r in &roots {
            let (es, evs) = ref_paths(r, &wo);
            reference.extend(es.into_iter().map(|e| e.path));
            loops |= !evs.is_empty();
        }
        if !loops && reference != visited && flag == "-H" && roots.iter().any(|r| r == "c/tl") {
            // walkdir's contents-first bookkeeping for a followed root link (see C02/C03)
            return fail("C10:-H:starting-point-is-link-to-directory", format!("find {}\nreference walk {reference:?}\nvisited        {visited:?}", a_all.join(" ")));
        }
        if !loops && reference != visited {
            let extra: Vec<&String> = visited.iter().filter(|v| !reference.contains(v)).take(5).collect();
            let missing: Vec<&String> = reference.iter().filter(|v| !visited.contains(v)).take(5).collect();
            return fail(
                format!("C10:entries-outside-the-reference-walk-would-be-touched:{flag}"),
                format!("find {}\nvisited but not in the reference walk: {extra:?}\nin the reference walk but not visited: {missing:?}", a_all.join(" ")),
            );
        }
    }
    // link counts of other names of a removed hard link necessarily change: not compared
    let snap = || {
        let mut m = snapshot("c");
        m.values_mut().for_each(|e| e.nlink = 0);
        m
    };
    let before = snap();
    // keys must be computed before anything is removed
    let mut keys: Vec<(String, Option<String>)> = vec![];
    for p in &visited {
        keys.push((p.clone(), key_of(ctx, p)));
    }
    // removal model
    let mut remaining: BTreeSet<String> = before.keys().cloned().collect();
    let mut expected_lines: Vec<String> = vec![];
    let mut any_fail = false;
    let mut link_matched = false;
    let mut removed: Vec<String> = vec![];
    for (p, key) in &keys {
        if !matched.contains(p) {
            expected_lines.push(format!("N:{p}"));
            continue;
        }
        let Some(key) = key else { inconclusive(&format!("C10: cannot canonicalise {p}")) };
        let Some(ent) = before.get(key) else { inconclusive(&format!("C10: {key} not in snapshot")) };
        if !remaining.contains(key) {
            // reached through two paths; the generator should have prevented this
            return Pass::discard("entry reachable through two paths");
        }
        let ok = if ent.kind == 'd' {
            let prefix = format!("{key}/");
            !remaining.iter().any(|r| r.starts_with(&prefix))
        } else {
            true
        };
        if ent.kind == 'l' {
            link_matched = true;
        }
        if ok {
            remaining.remove(key);
            removed.push(key.clone());
            expected_lines.push(format!("D:{p}"));
        } else {
            any_fail = true;
            expected_lines.push(format!("N:{p}"));
        }
    }
    // run B
    let mut b: Vec<String> = vec![flag.into()];
    b.extend(roots.iter().cloned());
    b.push("-sorted".into());
    if c.explicit_depth {
        b.push("-depth".into());
    }
    b.extend(opts.iter().cloned());
    b.push("(".into());
    b.push("(".into());
    b.extend(tests.iter().cloned());
    b.push(")".into());
    b.push("-delete".into());
    b.push("-printf".into());
    b.push("D:%p\\n".into());
    b.push(")".into());
    b.push("-o".into());
    b.push("-printf".into());
    b.push("N:%p\\n".into());
    let desc = format!("find {}", b.iter().map(|a| format!("{a:?}")).collect::<Vec<_>>().join(" "));
    let (status, stdout, stderr) = if c.via_binary {
        let o = ctx.run_bin(&find_bin(), &b, &BinOpts::default());
        if !o.ordinary() {
            return fail("C10:abnormal-termination", format!("{desc}: code {:?} signal {:?} stderr {:?}", o.code, o.signal, lossy(&o.stderr)));
        }
        (o.code.unwrap_or(-1), o.stdout, o.stderr)
    } else {
        let o = ctx.find(&b.iter().map(|s| s.as_str()).collect::<Vec<_>>());
        if let Some(p) = o.panic {
            return fail(format!("C10:panic:{}", p.split(": ").next().unwrap_or("?")), format!("{desc}\npanic: {p}"));
        }
        (o.status, o.stdout, o.stderr)
    };
    let after = snap();
    let mut expected_after = before.clone();
    for k in &removed {
        expected_after.remove(k);
    }
    let got_lines = lines(&stdout);
    let mode = format!("{flag}{}", if any_fail { ":removal-fails" } else { "" });
    let detail = |what: &str| {
        let missing: Vec<&String> = expected_after.keys().filter(|k| !after.contains_key(*k)).collect();
        let extra: Vec<&String> = after.keys().filter(|k| !expected_after.contains_key(*k)).collect();
        let changed: Vec<&String> = after.keys().filter(|k| expected_after.get(*k).map_or(false, |e| e != &after[*k])).collect();
        format!("{desc}\n{what}\nmatched (from -depth TESTS -print): {matched:?}\nexpected lines: {expected_lines:?}\nobserved lines: {got_lines:?}\nwrongly removed: {missing:?}\nwrongly kept: {extra:?}\nchanged: {changed:?}\nexit {status} stderr {:?}", lossy(&stderr))
    };
    if after != expected_after {
        let outside_hit = expected_after.keys().any(|k| k.starts_with("c/o") && !after.contains_key(k));
        let kind = if outside_hit { "outside-area-changed" } else if expected_after.keys().any(|k| !after.contains_key(k)) { "unmatched-entry-removed" } else { "matched-entry-kept" };
        return fail(format!("C10:{kind}:{mode}"), detail("file system after the run differs from the removal model"));
    }
    if got_lines != expected_lines {
        return fail(format!("C10:order-or-truth-of-delete-differs:{mode}"), detail("D/N lines differ"));
    }
    if any_fail && (status == 0 || stderr.is_empty()) {
        return fail("C10:failed-removal-not-reported", detail("a removal failed but exit status is 0 or no diagnostic"));
    }
    if !any_fail && status != 0 {
        return fail(format!("C10:nonzero-exit-without-failed-removal:{mode}"), detail("no removal failed but exit status is non-zero"));
    }
    // unmatched entry beside matched ones inside a matched directory
    let beside = matched.iter().any(|d| {
        let pre = format!("{d}/");
        let kids: Vec<&String> = visited.iter().filter(|v| v.starts_with(&pre) && !v[pre.len()..].contains('/')).collect();
        kids.iter().any(|k| matched.contains(k)) && kids.iter().any(|k| !matched.contains(k))
    });
    Pass::new(link_matched || any_fail || beside)
        .class_if(link_matched, "symlink-matched")
        .class_if(any_fail, "directory-removal-fails")
        .class_if(beside, "unmatched-beside-matched")
        .class_if(c.follow == 2, "follow-L")
        .class_if(c.follow == 1, "follow-H")
        .class_if(c.via_binary, "via-binary")
        .class_if(roots.len() > 1, "two-starting-points")
        .class_if(removed.is_empty(), "nothing-removed")
        .class_if(removed.iter().any(|k| k.starts_with("c/o")), "removed-through-followed-link")
        .sample(json!({"cmdline": desc, "matched": matched.len(), "visited": visited.len(), "removed": removed.len()}))
        .ok()
}

fn run(w: &mut Worker) {
    w.regress::<Case>("delete", check);
    w.random("delete", w.tier.pick(30_000, 400_000), (80, 500), 1200, gen_case, check);
}

fn replay(w: &mut Worker, _sub: &str, v: Value) -> Outcome {
    check(&mut w.ctx, &decode(v))
}
