//! C18 — starting points: processed in order, spelled as given, isolated on error; -files0-from.

use super::{decode, PropDef};
use crate::engine::fsx::{gen_tree, ref_walk, Act, Ev, FollowMode, Kind, Node, TreeParams, TreeSpec, WalkOpts};
use crate::engine::proc::{find_bin, lossy, BinOpts, Ctx};
use crate::engine::{fail, Gen, Outcome, Pass, Worker};
use serde::{Deserialize, Serialize};
use serde_json::{json, Value};
use std::ffi::OsString;

pub static DEF: PropDef = PropDef {
    id: "C18",
    rule: "random: a generated tree c/d (<=12 nodes, links included) plus a file, a link to the directory, a dangling link and entries whose names start with '-' or contain newlines/blanks x lists of 0-5 starting points drawn from: every spelling of the same directory (d, ./d, d/, d//, ./d/., d/../d, d/sub/.., absolute, c//d), '.', files, links, dangling links, (under -P) a link to itself, missing names, duplicates x tail expression (-print0, with -maxdepth 0/1, -mindepth 1/2, -depth, a -name test, -xdev or -mount) x follow mode (-P, -L) x how the list is given: as operands (1 in 5 after a '--'), through -files0-from FILE (with/without final NUL, empty names at any position), through -files0-from - (stdin; built binary); in one files0 case out of eight an operand ('.', a file, a directory) is given besides the list (the command line may be rejected or the operand walked too, but the run must differ from one without the operand). Oracle: stdout == concatenation, in the order given, of the reference walk of each starting point with its spelling as path prefix (no operand => walk of '.'); a starting point that cannot be examined => diagnostic + exit != 0 and every other one still present in order; empty names in a files0 list => a diagnostic, the rest unaffected; metamorphic: find -files0-from F EXPR and find NAMES... EXPR give the same stdout and exit class whenever all names can be written as operands. Non-trivial = >= 2 starting points with at least one non-plain spelling or a failing one, or a files0 list holding a name that cannot be an operand (leading '-', or an empty name). Distinct = distinct case JSON.",
    assumptions: &[
        "an empty -files0-from list is not compared with 'no operands' (the statement does not say)",
        "names in a files0 list are valid UTF-8, except for one existing file whose name is not, placed last: it must be walked or reported (diagnostic + non-zero exit), the other names being unaffected",
        "the words ',' ')' '(' '!' are not used as starting-point names (they start the expression)",
        "-sorted is given so that each walk is a deterministic function of the tree",
    ],
    run,
    replay,
    fuzz: None,
};

#[derive(Serialize, Deserialize, Debug, Clone)]
pub struct Case {
    pub tree: TreeSpec,
    pub roots: Vec<String>,
    /// 0 operands, 1 -files0-from FILE, 2 -files0-from - (binary)
    pub via: u8,
    pub final_nul: bool,
    /// positions (in the rendered list) before which an empty name is inserted (files0 only)
    pub empties: Vec<usize>,
    /// 0 -print0, 1 -maxdepth 1 -print0, 2 -depth -print0, 3 -name '*a*' -print0, 4 -maxdepth 0 -print0,
    /// 5 -mindepth 1 -print0, 6 -mindepth 2 -print0
    pub tail: u8,
    pub follow_l: bool,
    pub binary: bool,
    /// files0 only: the list ends with the name of an existing file that is not valid UTF-8
    #[serde(default)]
    pub raw_last: bool,
    /// operands only: "--" between the options and the starting points (or the expression)
    #[serde(default)]
    pub double_dash: bool,
    /// files0 only: an operand given besides the list (1 ".", 2 "c/f", 3 "c/d"): rejected or walked,
    /// never dropped in silence
    #[serde(default)]
    pub extra_operand: u8,
}

const RAW_NAME: &[u8] = b"c/raw-\xe9-\xff";

/// spellings of the directory c/d
fn dir_spellings() -> Vec<String> {
    vec!["c/d".into(), "./c/d".into(), "c/d/".into(), "c/d//".into(), "./c/d/.".into(), "c/d/../d".into(), "c//d".into(), "@ABS@/c/d".to_string(), "c/d/./".into(), "./c/./d".into()]
}

pub fn gen_case(g: &mut Gen) -> Case {
    let params = TreeParams { max_nodes: 10, max_depth: 3, kind_w: [4, 6, 2, 0, 0, 0], self_links: false, ..Default::default() };
    let mut tree = gen_tree(g, "c/d", &params);
    tree.nodes.push(Node::new("c/f", Kind::File));
    tree.nodes.push(Node::new("c/l", Kind::Link("d".into())));
    tree.nodes.push(Node::new("c/dl", Kind::Link("nowhere".into())));
    tree.nodes.push(Node::new("c/a b", Kind::Dir));
    tree.nodes.push(Node::new("c/a b/x\ny", Kind::File));
    tree.nodes.push(Node::new("c/nl\nname", Kind::Dir));
    tree.nodes.push(Node::new("c/nl\nname/inner", Kind::File));
    tree.nodes.push(Node::new("c/end\n", Kind::Dir));
    tree.nodes.push(Node::new("c/end\n/z", Kind::File));
    let via = g.weighted(&[5, 4, 1]) as u8;
    let follow_l = g.chance(1, 4);
    if !follow_l {
        // a link to itself: under -P an entry like any other (resolving it fails with ELOOP)
        tree.nodes.push(Node::new("c/lp", Kind::Link("lp".into())));
    }
    let n = g.weighted(&[1, 3, 4, 3, 2, 1]);
    let sp = dir_spellings();
    let mut roots = vec![];
    for _ in 0..n {
        let r = match g.weighted(&[8, 2, 2, 1, 2, 1, 2, 2]) {
            0 => g.pick(&sp),
            1 => "c/f".to_string(),
            2 => "c/l".to_string(),
            3 => if follow_l || g.bool() { "c/dl".to_string() } else { "c/lp".to_string() },
            4 => g.pick(&["c/missing", "nope", "c/d/none/deeper", "c/f/below-a-file"]).to_string(),
            5 => ".".to_string(),
            6 => g.pick(&["c/a b", "c/nl\nname", "c/a b/x\ny", "c/end\n", "c/end\n", "(2024) b", "!imp", ",v", ")x", "+", "{}"]).to_string(),
            _ => {
                // only through files0: names that cannot be operands
                if via != 0 {
                    g.pick(&["-dash", "-print", "--", "-", "-dash/inner"]).to_string()
                } else {
                    "c/d".to_string()
                }
            }
        };
        roots.push(r);
    }
    // duplicates
    if roots.len() >= 2 && g.chance(1, 4) {
        let d = roots[0].clone();
        roots.push(d);
    }
    let empties = if via != 0 && g.chance(1, 3) { g.vec_of(1, 2, |g| g.usize_in(0, 5)) } else { vec![] };
    Case { tree, roots, via, final_nul: g.chance(2, 3), empties, tail: g.weighted(&[4, 2, 2, 2, 1, 2, 1, 2, 1]) as u8, follow_l, binary: via == 2 || g.chance(1, 10), raw_last: via != 0 && g.chance(1, 6), double_dash: via == 0 && g.chance(1, 5), extra_operand: if via != 0 && g.chance(1, 8) { 1 + g.below(3) as u8 } else { 0 } }
}

fn tail_tokens(t: u8) -> Vec<&'static str> {
    match t {
        1 => vec!["-sorted", "-maxdepth", "1", "-print0"],
        2 => vec!["-sorted", "-depth", "-print0"],
        3 => vec!["-sorted", "-name", "*a*", "-print0"],
        4 => vec!["-sorted", "-maxdepth", "0", "-print0"],
        5 => vec!["-sorted", "-mindepth", "1", "-print0"],
        6 => vec!["-sorted", "-mindepth", "2", "-print0"],
        // (the sandbox holds no mount point: -xdev / -mount change nothing about the walk)
        7 => vec!["-sorted", "-xdev", "-print0"],
        8 => vec!["-sorted", "-mount", "-maxdepth", "1", "-print0"],
        _ => vec!["-sorted", "-print0"],
    }
}

struct Expect {
    out: Vec<u8>,
    failing: usize,
    loops: usize,
}

fn expected(roots: &[String], tail: u8, follow: FollowMode) -> Expect {
    let wo = WalkOpts {
        follow,
        depth_first: tail == 2,
        min_depth: match tail {
            5 => 1,
            6 => 2,
            _ => 0,
        },
        max_depth: match tail {
            1 | 8 => 1,
            4 => 0,
            _ => usize::MAX,
        },
        as_other: false,
    };
    let mut e = Expect { out: vec![], failing: 0, loops: 0 };
    for r in roots {
        let mut ev = vec![];
        ref_walk(r, &wo, &mut |en| {
            let sel = if tail == 3 { en.name().contains('a') } else { true };
            if sel {
                e.out.extend_from_slice(en.path.as_bytes());
                e.out.push(0);
            }
            Act::Continue
        }, &mut ev);
        for x in ev {
            match x {
                Ev::Error(_) => e.failing += 1,
                Ev::Loop(_) => e.loops += 1,
                _ => {}
            }
        }
    }
    e
}

fn run_find(ctx: &mut Ctx, args: &[String], stdin: Option<Vec<u8>>, binary: bool) -> Result<(i32, Vec<u8>, Vec<u8>), Outcome> {
    if binary || stdin.is_some() {
        let a: Vec<OsString> = args.iter().map(OsString::from).collect();
        let o = ctx.run_bin(&find_bin(), &a, &BinOpts { stdin, ..Default::default() });
        if !o.ordinary() {
            return Err(fail("C18:abnormal-termination:binary", format!("find {args:?}: exit {:?} signal {:?} stderr {:?}", o.code, o.signal, lossy(&o.stderr))));
        }
        Ok((o.code.unwrap_or(-1), o.stdout, o.stderr))
    } else {
        let a: Vec<&str> = args.iter().map(|s| s.as_str()).collect();
        let o = ctx.find(&a);
        if let Some(p) = o.panic {
            return Err(fail(format!("C18:panic:{}", p.split(": ").next().unwrap_or("?")), format!("find {args:?}: {p}")));
        }
        Ok((o.status, o.stdout, o.stderr))
    }
}

pub fn check(ctx: &mut Ctx, c0: &Case) -> Outcome {
    // the absolute spelling is stored with a placeholder so that saved cases replay in any sandbox
    let mut c = c0.clone();
    let abs = ctx.root.to_string_lossy().into_owned();
    for r in c.roots.iter_mut() {
        *r = r.replace("@ABS@", &abs);
    }
    // a walk of '.' would meet the oddly named file as an ordinary entry
    if c.raw_last && c.roots.iter().any(|r| r == ".") {
        c.raw_last = false;
    }
    let c = &c;
    ctx.fresh_case_dir();
    c.tree.build();
    // entries in the cwd whose names start with '-' (reachable only through -files0-from)
    // ... and names that begin with, or are, a character that is an operator when it stands alone; the
    // single characters '(' ')' '!' ',' themselves cannot be operands and are not used as such
    let dash_names = ["-dash", "-print", "--", "-", "(2024) b", "!imp", ",v", ")x", "+", "{}"];
    for d in dash_names {
        let p = ctx.root.join(d);
        let _ = std::fs::remove_dir_all(&p);
        std::fs::create_dir(&p).unwrap();
    }
    std::fs::File::create(ctx.root.join("-dash").join("inner")).unwrap();
    let cleanup = |ctx: &Ctx| {
        for d in dash_names {
            let _ = std::fs::remove_dir_all(ctx.root.join(d));
        }
        let _ = std::fs::remove_file(ctx.root.join("list0"));
    };
    let follow = if c.follow_l { FollowMode::L } else { FollowMode::P };
    let tail: Vec<String> = tail_tokens(c.tail).iter().map(|s| s.to_string()).collect();
    let mut args: Vec<String> = vec![];
    if c.follow_l {
        args.push("-L".into());
    }
    let extra_operand = if c.via != 0 { [None, Some("."), Some("c/f"), Some("c/d")][c.extra_operand as usize % 4] } else { None };
    if let Some(op) = extra_operand {
        args.push(op.to_string());
    }
    let mut stdin = None;
    let mut list: Vec<String> = c.roots.clone();
    let mut n_empty = 0;
    if c.via != 0 {
        for e in &c.empties {
            let pos = (*e).min(list.len());
            list.insert(pos, String::new());
            n_empty += 1;
        }
        let mut blist: Vec<Vec<u8>> = list.iter().map(|n| n.as_bytes().to_vec()).collect();
        if c.raw_last {
            use std::os::unix::ffi::OsStrExt;
            std::fs::write(std::ffi::OsStr::from_bytes(RAW_NAME), b"x").unwrap();
            blist.push(RAW_NAME.to_vec());
        }
        let mut bytes = Vec::new();
        for (i, n) in blist.iter().enumerate() {
            bytes.extend_from_slice(n);
            if i + 1 < blist.len() || c.final_nul {
                bytes.push(0);
            }
        }
        // a trailing empty name without final NUL is indistinguishable from "final NUL present"
        if !c.final_nul && !c.raw_last && list.last().map_or(false, |l| l.is_empty()) {
            n_empty -= 1;
        }
        if c.via == 1 {
            std::fs::write(ctx.root.join("list0"), &bytes).unwrap();
            args.extend(["-files0-from".to_string(), "list0".to_string()]);
        } else {
            stdin = Some(bytes);
            args.extend(["-files0-from".to_string(), "-".to_string()]);
        }
    } else {
        if c.double_dash {
            args.push("--".into());
        }
        args.extend(c.roots.iter().cloned());
    }
    args.extend(tail.iter().cloned());
    // (after list0 exists: a walk of '.' sees it)
    let dot = [".".to_string()];
    let exp = expected(if c.roots.is_empty() && c.via == 0 { &dot[..] } else { &c.roots[..] }, c.tail, follow);
    if c.via != 0 && c.roots.is_empty() {
        cleanup(ctx);
        return Pass::discard("empty files0 list (not compared with 'no operands')");
    }
    let (status, out, err) = match run_find(ctx, &args, stdin, c.binary) {
        Ok(x) => x,
        Err(f) => {
            cleanup(ctx);
            return f;
        }
    };
    let via_s = match c.via {
        0 => "operands",
        1 => "files0-file",
        _ => "files0-stdin",
    };
    if let Some(op) = extra_operand {
        // a starting point given as an operand besides the list: the command line may be rejected
        // (nothing walked, diagnostic, non-zero status) or the operand walked as well; what must not
        // happen is a run that cannot be told from one without the operand
        cleanup(ctx);
        if exp.out.is_empty() || c.raw_last {
            return Pass::discard("operand besides a files0 list whose walk prints nothing");
        }
        let rejected = out.is_empty() && status != 0 && !err.is_empty();
        if !rejected && out == exp.out {
            return fail(format!("C18:operand-besides-files0-list-dropped-silently:{}", if op == "." { "dot" } else { "other" }), format!("find {args:?}   [{via_s}; list {list:?}]\nexit {status}\nstderr {:?}\nstdout {:?}\nthe operand {op:?} was neither walked nor diagnosed", lossy(&err), lossy(&out)));
        }
        return Pass::new(true).class("operand-besides-files0-list").class(if rejected { "operand-besides-files0-list:rejected" } else { "operand-besides-files0-list:walked" }).ok();
    }
    // the name that is not valid UTF-8 (last in the list): either walked like any other existing file
    // (its path, byte for byte, ends the output where the tail expression selects a depth-0 file) or
    // reported as a starting point that cannot be examined - never passed over in silence
    let mut out = out;
    let mut raw_unexamined = false;
    if c.raw_last && c.via != 0 {
        let mut rec = RAW_NAME.to_vec();
        rec.push(0);
        if out.ends_with(&rec) && !exp.out.ends_with(&rec) {
            out.truncate(out.len() - rec.len());
        } else {
            raw_unexamined = true;
            if status == 0 || err.is_empty() {
                let e = fail(format!("C18:name-that-is-not-valid-utf8-skipped-silently:{via_s}"), format!("find {args:?}   [{via_s}; list {list:?} + {:?}]\nexit {status}\nstderr {:?}\nstdout {:?}", lossy(RAW_NAME), lossy(&err), lossy(&out)));
                cleanup(ctx);
                return e;
            }
        }
    }
    let desc = |extra: &str| format!("find {args:?}   [{via_s}; list {list:?}]\nexit {status}\nstderr {:?}\nexpected stdout {:?}\nobserved stdout {:?}\n{extra}", lossy(&err), lossy(&exp.out), lossy(&out));
    let result = (|| {
        if out != exp.out {
            // classify
            let got: Vec<&[u8]> = out.split(|b| *b == 0).collect();
            let want: Vec<&[u8]> = exp.out.split(|b| *b == 0).collect();
            let mut gs = got.clone();
            let mut ws = want.clone();
            gs.sort();
            ws.sort();
            let what = if gs == ws {
                "order-of-starting-points"
            } else if got.len() < want.len() {
                if exp.failing > 0 { "entries-missing:with-failing-starting-point" } else { "entries-missing" }
            } else if got.len() > want.len() {
                "extra-entries"
            } else {
                "spelling-of-paths"
            };
            return fail(format!("C18:{what}:{via_s}"), desc(""));
        }
        let should_fail = exp.failing > 0 || exp.loops > 0 || raw_unexamined;
        if should_fail && (status == 0 || err.is_empty()) {
            return fail(format!("C18:unexaminable-starting-point-not-reported:{via_s}"), desc(""));
        }
        if !should_fail && status != 0 {
            return fail(format!("C18:nonzero-exit-without-cause:{via_s}"), desc(""));
        }
        if n_empty > 0 && err.is_empty() {
            return fail("C18:empty-name-not-diagnosed", desc(""));
        }
        // metamorphic: the same names as operands
        let expressible = c.via != 0 && n_empty == 0 && !c.raw_last && c.roots.iter().all(|r| !r.starts_with('-') && !["!", "(", ")", ","].contains(&r.as_str()));
        if expressible {
            let mut a2: Vec<String> = vec![];
            if c.follow_l {
                a2.push("-L".into());
            }
            a2.extend(c.roots.iter().cloned());
            a2.extend(tail.iter().cloned());
            match run_find(ctx, &a2, None, false) {
                Err(f) => return f,
                Ok((s2, o2, _)) => {
                    if o2 != out || (s2 == 0) != (status == 0) {
                        return fail(format!("C18:files0-differs-from-operands:{via_s}"), desc(&format!("as operands: exit {s2} stdout {:?}", lossy(&o2))));
                    }
                }
            }
        }
        let plain = |r: &String| r == "c/d" || r == "c/f";
        let non_operand = c.via != 0 && (n_empty > 0 || c.roots.iter().any(|r| r.starts_with('-')));
        let nt = (c.roots.len() >= 2 && (c.roots.iter().any(|r| !plain(r)) || exp.failing > 0)) || non_operand;
        Pass::new(nt)
            .class(match c.via {
                0 => "operands",
                1 => "files0-from-file",
                _ => "files0-from-stdin",
            })
            .class_if(exp.failing > 0, "failing-starting-point")
            .class_if(exp.failing > 0 && c.roots.len() >= 2, "failing-among-several")
            .class_if(n_empty > 0, "empty-name-in-list")
            .class_if(non_operand, "name-that-cannot-be-an-operand")
            .class_if(c.roots.is_empty(), "no-starting-point")
            .class_if(expressible, "metamorphic-operands-vs-files0")
            .class_if(c.roots.iter().any(|r| r.contains('\n')), "newline-in-starting-point")
            .class_if(c.binary, "through-binary")
            .sample(json!({"cmdline": format!("find {}", args.join(" ")), "list": list, "exit": status}))
            .ok()
    })();
    cleanup(ctx);
    result
}

fn run(w: &mut Worker) {
    w.regress::<Case>("roots", check);
    w.random("roots", w.tier.pick(24_000, 300_000), (60, 300), 800, gen_case, check);
}

fn replay(w: &mut Worker, _sub: &str, v: Value) -> Outcome {
    check(&mut w.ctx, &decode(v))
}
