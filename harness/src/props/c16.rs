//! C16 — -printf / -fprintf render escapes, directives, width and justification faithfully.

use super::{decode, PropDef};
use crate::engine::fsx::{ref_paths, FollowMode, Kind, Node, RefEntry, TreeSpec, WalkOpts};
use crate::engine::proc::{lossy, Ctx};
use crate::engine::{fail, Gen, Outcome, Pass, Worker};
use serde::{Deserialize, Serialize};
use serde_json::{json, Value};
use std::os::unix::fs::MetadataExt;

pub static DEF: PropDef = PropDef {
    id: "C16",
    rule: "format strings from the statement's grammar: literal text (ASCII and multi-byte; no '%' or backslash), escapes \\a \\b \\f \\n \\r \\t \\v \\\\ \\0 \\NNN (three octal digits, 001-377: the byte with that value), '%%', directives p f h H P d s n i U G m y Y l with optional '-' flag and width 0-40, 1-8 components; rendered by find in process on a tree that holds every creatable type (regular files with sizes and 12-bit modes incl. setuid/setgid/sticky, directories two levels deep, fifo, socket, hard link, links to file / directory / nothing / themselves, foreign owners) under starting points spelled c/d, ./c/d, c/d/, c/d//, ./c/d/., c/d/../d, absolute, c//d, '.', a link to a directory as such and with a trailing '/' or '/.', 1 case in 4 with -depth, under -P/-H/-L, through -printf (stdout) or -fprintf (file). Exhaustive sub-run: every format of <= 2 (thorough 3) components over a 32-component alphabet. Oracle: an independent renderer fed by lstat/stat/readlink as the follow mode prescribes and by the reference walker's path strings; the output must equal the concatenation over the visit order, byte for byte. Identities checked on dedicated runs: %p == the -print path; %H == the starting point as given and %H + '/' + %P == %p below it; %y / %Y letters agree with which -type / -xtype selects the entry. Sub-run times: one file whose access/modification time is set to an exact (seconds, nanoseconds) pair - seconds at minute/day/leap-day/2038 boundaries, before 1970, random; nanoseconds 0, d*10^k, random; status-change time read back - rendered as %X@|%XS|%X+|%XY-%Xm-%Xd+%XH:%XM:%XS|%XY-%Xm-%Xd %XH:%XM|%t under TZ=UTC (X in A,T,C; %X@ also with a width); oracle: the decimal time stamp with a ten-digit fraction, a calendar conversion written in the harness, %X+ == what its parts give, %a/%c/%t == ctime(3) with the fraction (non-trivial there = nanoseconds end in a zero, a time before 1970, a width, or a day of the month below 10). Non-trivial = the format has >= 2 directives, one with a width, and some visited entry is a link or lies below a starting point not spelled as a plain name. Distinct = distinct case JSON.",
    assumptions: &[
        "width/padding is asserted on values that are ASCII (entry names in the tree are ASCII; multi-byte text appears as literal text only)",
        "modes always have an owner permission bit so that %m has no leading zero whose printing the statement leaves open",
        "%f / %h are asserted at depth 0 only for starting points whose spelling ends in a plain component, and %h only where the part before the last '/' is already in normal form",
        "%l of a link that the follow mode resolves may be the target or empty (the statement allows both)",
        "escapes are generated with exactly three octal digits; a literal never starts with a digit",
    ],
    run,
    replay,
    fuzz: Some(fuzz_one),
};

#[derive(Serialize, Deserialize, Debug, Clone, PartialEq, Eq)]
pub enum Comp {
    Lit(String),
    /// escape by its letter: a b f n r t v \\ 0, or 'o' + code for \NNN
    Esc(char, u8),
    Pct,
    Dir { letter: char, left: bool, width: Option<u8> },
}

#[derive(Serialize, Deserialize, Debug, Clone)]
pub struct Case {
    pub fmt: Vec<Comp>,
    /// index into ROOTS
    pub root: u8,
    /// 0 -P, 1 -H, 2 -L
    pub follow: u8,
    pub to_file: bool,
    /// seed for the modes of the tree's files
    pub mode_seed: u16,
    /// -depth: a directory is rendered after its contents (from the record it had when it was met)
    #[serde(default)]
    pub depth: bool,
}

pub const ROOTS: &[&str] = &["c/d", "./c/d", "c/d/", "c/d//", "./c/d/.", "c/d/../d", "@ABS@/c/d", "c//d", ".", "c/d/ln_dir", "c/d/ln_file", "c/d/f1", "c/d/ln_dir/", "c/d/ln_dir/."];
const LETTERS: &[char] = &['p', 'f', 'h', 'H', 'P', 'd', 's', 'n', 'i', 'U', 'G', 'm', 'y', 'Y', 'l'];

pub fn render_fmt(f: &[Comp]) -> String {
    let mut s = String::new();
    for c in f {
        match c {
            Comp::Lit(t) => s.push_str(t),
            Comp::Esc('o', code) => s.push_str(&format!("\\{code:03o}")),
            Comp::Esc(ch, _) => {
                s.push('\\');
                s.push(*ch);
            }
            Comp::Pct => s.push_str("%%"),
            Comp::Dir { letter, left, width } => {
                s.push('%');
                if *left {
                    s.push('-');
                }
                if let Some(w) = width {
                    s.push_str(&w.to_string());
                }
                s.push(*letter);
            }
        }
    }
    s
}

fn esc_bytes(ch: char, code: u8) -> Vec<u8> {
    match ch {
        'a' => vec![7],
        'b' => vec![8],
        'f' => vec![12],
        'n' => vec![b'\n'],
        'r' => vec![b'\r'],
        't' => vec![b'\t'],
        'v' => vec![11],
        '\\' => vec![b'\\'],
        '0' => vec![0],
        _ => vec![code],
    }
}

fn tree(mode_seed: u16) -> TreeSpec {
    let mut x = mode_seed as u32 | 0x10000;
    let mut next_mode = || {
        x = x.wrapping_mul(1103515245).wrapping_add(12345);
        // all twelve bits random, owner-read forced so that the value has three or four octal digits
        ((x >> 8) & 0o7777) | 0o400
    };
    let mut t = TreeSpec::default();
    let mut push = |path: &str, kind: Kind, size: u64, owner: Option<(u32, u32)>, with_mode: bool, t: &mut TreeSpec| {
        let mut n = Node::new(path, kind);
        n.size = size;
        n.owner = owner;
        if with_mode {
            n.mode = Some(next_mode());
        }
        t.nodes.push(n);
    };
    push("c/d", Kind::Dir, 0, None, false, &mut t);
    push("c/d/f1", Kind::File, 5, None, true, &mut t);
    push("c/d/f2", Kind::File, 70_000, Some((54321, 1)), true, &mut t);
    push("c/d/empty", Kind::File, 0, Some((1, 65534)), true, &mut t);
    push("c/d/hard", Kind::Hard("c/d/f1".into()), 0, None, false, &mut t);
    push("c/d/sub", Kind::Dir, 0, None, false, &mut t);
    push("c/d/sub/g", Kind::File, 513, None, true, &mut t);
    push("c/d/sub/deep", Kind::Dir, 0, Some((65534, 54321)), false, &mut t);
    push("c/d/sub/deep/h", Kind::File, 1, None, true, &mut t);
    push("c/d/sub/ln_up", Kind::Link("../f2".into()), 0, None, false, &mut t);
    push("c/d/pipe", Kind::Fifo, 0, None, true, &mut t);
    push("c/d/sock", Kind::Sock, 0, None, true, &mut t);
    push("c/d/ln_file", Kind::Link("f1".into()), 0, Some((1, 1)), false, &mut t);
    push("c/d/ln_dir", Kind::Link("sub/deep".into()), 0, None, false, &mut t);
    push("c/d/ln_dangling", Kind::Link("no/where".into()), 0, None, false, &mut t);
    push("c/d/ln_pipe", Kind::Link("pipe".into()), 0, None, false, &mut t);
    push("c/d/ln_abs", Kind::Link("/nonexistent-verif-target".into()), 0, None, false, &mut t);
    t
}

fn pad(v: &str, left: bool, width: Option<u8>) -> String {
    match width {
        None => v.to_string(),
        Some(w) => {
            let n = v.chars().count();
            let w = w as usize;
            if n >= w {
                v.to_string()
            } else if left {
                format!("{v}{}", " ".repeat(w - n))
            } else {
                format!("{}{v}", " ".repeat(w - n))
            }
        }
    }
}

#[derive(Debug)]
enum Val {
    Exact(String),
    /// any of these
    OneOf(Vec<String>),
    /// not decided by the statement for this entry
    Open,
}

fn xtype_letters(e: &RefEntry) -> Vec<char> {
    // the letter t for which -xtype t selects the entry; N / L / ? acceptable only where -xtype l holds
    match e.xrec() {
        Some(m) => {
            let l = RefEntry::type_letter(m);
            if l == 'l' {
                vec!['l', 'N', 'L', '?']
            } else {
                vec![l]
            }
        }
        // the opposite record cannot be obtained (dangling / loop): -xtype l holds
        None => vec!['l', 'N', 'L', '?'],
    }
}

fn value(letter: char, e: &RefEntry, root: &str) -> Val {
    let p = &e.path;
    let rec = e.rec();
    match letter {
        'p' => Val::Exact(p.clone()),
        'f' => {
            // a trailing slash: "the last component" with or without it (GNU keeps it)
            if e.depth == 0 && root.ends_with('/') {
                return Val::Open;
            }
            Val::Exact(match p.rfind('/') {
                Some(i) => p[i + 1..].to_string(),
                None => p.clone(),
            })
        }
        'h' => {
            if e.depth == 0 && root.ends_with('/') {
                return Val::Open;
            }
            match p.rfind('/') {
                None => Val::Exact(".".into()),
                Some(0) => Val::Open,
                Some(i) => {
                    let pre = &p[..i];
                    // "the part before it" is only unambiguous when the separator is a single '/';
                    // '.' and '..' are components like any other ("d/./x": "d/."; "d/sub/..": "d/sub")
                    if pre.ends_with('/') {
                        Val::Open
                    } else {
                        Val::Exact(pre.to_string())
                    }
                }
            }
        }
        'H' => Val::Exact(root.to_string()),
        'P' => {
            if e.depth == 0 {
                Val::Exact(String::new())
            } else {
                Val::Exact(p[root.len()..].trim_start_matches('/').to_string())
            }
        }
        'd' => Val::Exact(e.depth.to_string()),
        's' => Val::Exact(rec.len().to_string()),
        'n' => Val::Exact(rec.nlink().to_string()),
        'i' => Val::Exact(rec.ino().to_string()),
        'U' => Val::Exact(rec.uid().to_string()),
        'G' => Val::Exact(rec.gid().to_string()),
        'm' => Val::Exact(format!("{:o}", rec.mode() & 0o7777)),
        'y' => Val::Exact(RefEntry::type_letter(rec).to_string()),
        'Y' => Val::OneOf(xtype_letters(e).iter().map(|c| c.to_string()).collect()),
        'l' => {
            let is_link_entry = RefEntry::type_letter(rec) == 'l';
            let target = std::fs::read_link(p).map(|t| t.to_string_lossy().into_owned()).unwrap_or_default();
            if is_link_entry {
                Val::Exact(target)
            } else if e.is_link() {
                Val::OneOf(vec![String::new(), target])
            } else {
                Val::Exact(String::new())
            }
        }
        _ => Val::Open,
    }
}

/// Some(alternatives) for one entry, None = the statement leaves this (format, entry) open
fn expected_for(fmt: &[Comp], e: &RefEntry, root: &str) -> Option<Vec<Vec<u8>>> {
    let mut outs: Vec<Vec<u8>> = vec![vec![]];
    for c in fmt {
        match c {
            Comp::Lit(t) => outs.iter_mut().for_each(|o| o.extend_from_slice(t.as_bytes())),
            Comp::Esc(ch, code) => {
                let b = esc_bytes(*ch, *code);
                outs.iter_mut().for_each(|o| o.extend_from_slice(&b));
            }
            Comp::Pct => outs.iter_mut().for_each(|o| o.push(b'%')),
            Comp::Dir { letter, left, width } => match value(*letter, e, root) {
                Val::Open => return None,
                Val::Exact(v) => {
                    let s = pad(&v, *left, *width);
                    outs.iter_mut().for_each(|o| o.extend_from_slice(s.as_bytes()));
                }
                Val::OneOf(vs) => {
                    let mut next = vec![];
                    for o in &outs {
                        for v in &vs {
                            let mut n = o.clone();
                            n.extend_from_slice(pad(v, *left, *width).as_bytes());
                            next.push(n);
                        }
                    }
                    next.sort();
                    next.dedup();
                    if next.len() > 64 {
                        return None;
                    }
                    outs = next;
                }
            },
        }
    }
    Some(outs)
}

fn follow_of(f: u8) -> FollowMode {
    match f {
        1 => FollowMode::H,
        2 => FollowMode::L,
        _ => FollowMode::P,
    }
}

/// which directive is responsible for a mismatch (for the signature): re-render each directive alone
fn blame(ctx: &mut Ctx, c: &Case, root: &str, entries: &[RefEntry]) -> String {
    let fm = follow_of(c.follow);
    for comp in &c.fmt {
        if let Comp::Dir { letter, .. } = comp {
            let single = vec![Comp::Dir { letter: *letter, left: false, width: None }, Comp::Esc('0', 0)];
            let o = ctx.find(&[fm.flag(), root, "-sorted", "-printf", &render_fmt(&single)]);
            let got: Vec<&[u8]> = o.stdout.split(|b| *b == 0).collect();
            for (i, e) in entries.iter().enumerate() {
                let Some(alts) = expected_for(&single[..1], e, root) else { continue };
                let g = got.get(i).copied().unwrap_or(b"<missing>");
                if !alts.iter().any(|a| a.as_slice() == g) {
                    return format!("%{letter}:{}", classify_entry(e, root, *letter));
                }
            }
        }
    }
    if c.fmt.iter().any(|x| matches!(x, Comp::Dir { width: Some(_), .. })) {
        return "width-or-justification".into();
    }
    if c.fmt.iter().any(|x| matches!(x, Comp::Esc(..))) {
        return "escape".into();
    }
    "literal-text".into()
}

fn classify_entry(e: &RefEntry, root: &str, letter: char) -> String {
    let plain_root = !(root.ends_with('/') || root.ends_with("/.") || root.contains("//") || root.contains("/../") || root.contains("/./"));
    match letter {
        'H' | 'P' | 'h' | 'f' | 'p' => {
            if !plain_root {
                if e.depth == 0 { "depth0:root-not-in-normal-form".into() } else { "below:root-not-in-normal-form".into() }
            } else if e.depth == 0 {
                "depth0".into()
            } else {
                "below".into()
            }
        }
        'y' | 'Y' | 'l' => {
            let k = if e.is_link() { if e.follows { "link-resolved-by-follow-mode" } else { "link" } } else { "non-link" };
            let t = if e.is_link() { if e.smeta.is_none() { ":dangling-or-loop" } else { "" } } else { "" };
            format!("{k}{t}")
        }
        _ => {
            if e.is_link() { if e.follows { "link-resolved-by-follow-mode".into() } else { "link".into() } } else { "non-link".into() }
        }
    }
}

pub fn check(ctx: &mut Ctx, c: &Case) -> Outcome {
    ctx.fresh_case_dir();
    tree(c.mode_seed).build();
    let abs = ctx.root.to_string_lossy().into_owned();
    let root = ROOTS[c.root as usize % ROOTS.len()].replace("@ABS@", &abs);
    let fm = follow_of(c.follow);
    let out_file = ctx.root.join("printf.out");
    let _ = std::fs::remove_file(&out_file);
    let to_file = c.to_file && root != ".";
    let fmt = render_fmt(&c.fmt);
    let mut args: Vec<&str> = vec![fm.flag(), &root, "-sorted"];
    if c.depth {
        args.push("-depth");
    }
    if to_file {
        args.extend(["-fprintf", "printf.out", &fmt]);
    } else {
        args.extend(["-printf", &fmt]);
    }
    // reference entries AFTER the output file exists? it lives outside every starting point except '.'
    let wo = WalkOpts { follow: fm, depth_first: c.depth, ..Default::default() };
    let (entries, _events) = ref_paths(&root, &wo);
    let o = ctx.find(&args);
    let desc0 = format!("find {}", args.iter().map(|a| format!("{a:?}")).collect::<Vec<_>>().join(" "));
    if let Some(p) = o.panic {
        return fail(format!("C16:panic:{}", p.split(": ").next().unwrap_or("?")), format!("{desc0}\npanic: {p}"));
    }
    let got: Vec<u8> = if to_file { std::fs::read(&out_file).unwrap_or_default() } else { o.stdout.clone() };
    let _ = std::fs::remove_file(&out_file);
    // walk the output entry by entry; alternatives (e.g. %l of a resolved link) are handled by
    // tracking the set of offsets at which the next entry may start
    let mut positions: Vec<usize> = vec![0];
    for e in &entries {
        match expected_for(&c.fmt, e, &root) {
            Some(alts) => {
                let mut next: Vec<usize> = vec![];
                for p in &positions {
                    for a in &alts {
                        if got[(*p).min(got.len())..].starts_with(a) {
                            next.push(p + a.len());
                        }
                    }
                }
                next.sort();
                next.dedup();
                if next.is_empty() {
                    let pos = *positions.iter().max().unwrap();
                    let what = blame(ctx, c, &root, &entries);
                    let upto = (pos + 200).min(got.len());
                    let flag = if what.contains("root-not-in-normal-form") && what.starts_with("%H") { String::new() } else { format!(":{}", fm.flag()) };
                    return fail(
                        format!("C16:{what}{flag}"),
                        format!("{desc0}\nentry {:?} (depth {}, follows {})\nexpected one of {:?}\nobserved at offset {pos}: {:?}\nstderr {:?}", e.path, e.depth, e.follows, alts.iter().map(|a| lossy(a)).collect::<Vec<_>>(), lossy(&got[pos.min(got.len())..upto]), lossy(&o.stderr)),
                    );
                }
                positions = next;
            }
            None => {
                return Pass::discard("format/entry combination left open by the statement (%f/%h where the last component or the part before it is not in normal form)");
            }
        }
    }
    if !positions.contains(&got.len()) {
        let pos = *positions.iter().max().unwrap();
        return fail(format!("C16:something-appended:{}", fm.flag()), format!("{desc0}\nexpected {} bytes, observed {} bytes; tail {:?}", pos, got.len(), lossy(&got[pos.min(got.len())..])));
    }
    let ndir = c.fmt.iter().filter(|x| matches!(x, Comp::Dir { .. })).count();
    let has_width = c.fmt.iter().any(|x| matches!(x, Comp::Dir { width: Some(_), .. }));
    let plain_root = root == "c/d";
    let nt = ndir >= 2 && has_width && (!plain_root || entries.iter().any(|e| e.is_link()));
    Pass::new(nt)
        .class(match c.follow {
            1 => "follow-H",
            2 => "follow-L",
            _ => "follow-P",
        })
        .class_if(!plain_root, "root-spelled-differently")
        .class_if(has_width, "width")
        .class_if(c.fmt.iter().any(|x| matches!(x, Comp::Dir { left: true, width: Some(_), .. })), "left-justified")
        .class_if(c.fmt.iter().any(|x| matches!(x, Comp::Esc(..))), "escape")
        .class_if(c.fmt.iter().any(|x| matches!(x, Comp::Lit(t) if !t.is_ascii())), "multi-byte-literal")
        .class_if(to_file, "fprintf")
        .sample(json!({"cmdline": desc0, "entries": entries.len()}))
        .evals(entries.len() as u64)
        .ok()
}

fn gen_comp(g: &mut Gen, prev_was_nul_escape: bool) -> Comp {
    match g.weighted(&[3, 2, 1, 8]) {
        0 => {
            let mut t = String::new();
            for _ in 0..g.usize_in(1, 3) {
                t.push_str(g.pick(&["a", " ", "-", ":", "é", "日本", "x y", "[", "]", "{}", "'", "\"", "𝄞", "/", ".", "|"]));
            }
            let _ = prev_was_nul_escape;
            Comp::Lit(t)
        }
        1 => {
            let ch = g.pick(&['a', 'b', 'f', 'n', 'r', 't', 'v', '\\', '0', 'o', 'o']);
            Comp::Esc(ch, if ch == 'o' { if g.bool() { g.range(1, 0o177) as u8 } else { g.range(0o200, 0o377) as u8 } } else { 0 })
        }
        2 => Comp::Pct,
        _ => {
            let letter = g.pick(LETTERS);
            let width = if g.chance(1, 2) { Some(g.pick(&[0u8, 1, 2, 3, 5, 8, 12, 20, 40])) } else { None };
            Comp::Dir { letter, left: g.chance(1, 3), width }
        }
    }
}

pub fn gen_case(g: &mut Gen) -> Case {
    let n = g.usize_in(1, 8);
    let mut fmt: Vec<Comp> = vec![];
    for _ in 0..n {
        let c = gen_comp(g, false);
        // two adjacent literals would merge: fine; a literal is never generated starting with a digit
        fmt.push(c);
    }
    Case { fmt, root: g.weighted(&[6, 2, 2, 2, 2, 1, 1, 1, 1, 1, 1, 1, 1, 1]) as u8, follow: g.weighted(&[4, 2, 3]) as u8, to_file: g.chance(1, 6), mode_seed: g.below(65536) as u16, depth: g.chance(1, 4) }
}

fn alphabet() -> Vec<Comp> {
    let mut v = vec![Comp::Lit("a ".into()), Comp::Lit("é".into()), Comp::Pct, Comp::Esc('n', 0), Comp::Esc('0', 0), Comp::Esc('\\', 0), Comp::Esc('t', 0), Comp::Esc('o', 0o101), Comp::Esc('o', 0o351)];
    for l in LETTERS {
        v.push(Comp::Dir { letter: *l, left: false, width: None });
    }
    for (l, left, w) in [('p', false, 30u8), ('f', true, 12), ('d', false, 3), ('s', true, 9), ('m', false, 6), ('y', true, 2), ('l', false, 10), ('P', true, 20)] {
        v.push(Comp::Dir { letter: l, left, width: Some(w) });
    }
    v
}


// ---- time directives ----------------------------------------------------------------

/// One file whose access and modification times are set to an exact (seconds, nanoseconds) pair;
/// the status-change time is whatever the kernel stamped (read back with lstat).
#[derive(Serialize, Deserialize, Debug, Clone)]
pub struct TimeCase {
    pub secs: i64,
    pub ns: u32,
    /// 'A', 'T' or 'C'
    pub which: char,
    /// Some((left_justified, width)) on the %X@ directive
    pub width: Option<(bool, u8)>,
    /// 0: the file itself; 1, 2, 3: a symbolic link to it (with other time stamps of its own) as the
    /// starting point under -P, -L, -H - the record the follow mode selects supplies the times
    #[serde(default)]
    pub via_link: u8,
}

/// days since 1970-01-01 -> (year, month, day), proleptic Gregorian
fn civil_from_days(z: i64) -> (i64, u32, u32) {
    let z = z + 719_468;
    let era = z.div_euclid(146_097);
    let doe = z.rem_euclid(146_097);
    let yoe = (doe - doe / 1460 + doe / 36_524 - doe / 146_096) / 365;
    let y = yoe + era * 400;
    let doy = doe - (365 * yoe + yoe / 4 - yoe / 100);
    let mp = (5 * doy + 2) / 153;
    let d = (doy - (153 * mp + 2) / 5 + 1) as u32;
    let m = if mp < 10 { mp + 3 } else { mp - 9 } as u32;
    (if m <= 2 { y + 1 } else { y }, m, d)
}

fn gen_time_case(g: &mut Gen) -> TimeCase {
    let secs = match g.weighted(&[4, 3, 2, 2]) {
        0 => g.pick(&[0i64, 1, 59, 60, 3599, 86_399, 86_400, 951_782_400, 951_868_799, 1_709_164_800, 1_577_934_245, 2_147_483_647, 2_147_483_648, 4_102_444_799, 8_836_052_645]),
        1 => g.range(0, 1i64 << 33),
        2 => g.pick(&[-1i64, -60, -86_400, -86_401, -315_521_755, -2_147_483_648]),
        _ => g.range(-(1i64 << 31), -1),
    };
    let ns = match g.weighted(&[3, 2, 3]) {
        0 => g.pick(&[0u32, 1, 10, 100, 1_000, 500_000_000, 120_000_000, 123_456_789, 999_999_999, 999_999_000, 999_000_000, 100_000_000, 250_000_000, 1_000_000]),
        // a short fraction: d * 10^k
        1 => (g.range(1, 9) as u32) * 10u32.pow(g.below(9) as u32),
        _ => g.below(1_000_000_000) as u32,
    };
    TimeCase { secs, ns, which: g.pick(&['A', 'T', 'T', 'C']), width: if g.chance(1, 4) { Some((g.bool(), g.range(0, 30) as u8)) } else { None }, via_link: if g.chance(1, 3) { g.range(1, 3) as u8 } else { 0 } }
}

fn check_times(ctx: &mut Ctx, c: &TimeCase) -> Outcome {
    ctx.fresh_case_dir();
    std::fs::write("c/f", b"x").unwrap();
    crate::engine::fsx::set_times("c/f", Some((c.secs, c.ns)), Some((c.secs, c.ns)));
    let entry = if c.via_link > 0 { "c/l" } else { "c/f" };
    if c.via_link > 0 {
        std::os::unix::fs::symlink("f", "c/l").unwrap();
        let other = (c.secs - 7_777, (c.ns + 111_111_111) % 1_000_000_000);
        crate::engine::fsx::set_times("c/l", Some(other), Some(other));
    }
    let md = if c.via_link >= 2 { std::fs::metadata(entry).unwrap() } else { std::fs::symlink_metadata(entry).unwrap() };
    let (secs, ns) = match c.which {
        'A' => (md.atime(), md.atime_nsec() as u32),
        'T' => (md.mtime(), md.mtime_nsec() as u32),
        _ => (md.ctime(), md.ctime_nsec() as u32),
    };
    if c.which != 'C' && c.via_link != 1 && (secs, ns) != (c.secs, c.ns) {
        return Pass::new(false).class("file-system-did-not-keep-the-time-stamp").ok();
    }
    let x = c.which;
    let at = match c.width {
        None => format!("%{x}@"),
        Some((left, w)) => format!("%{}{w}{x}@", if left { "-" } else { "" }),
    };
    let fmt = format!("{at}|%{x}S|%{x}+|%{x}Y-%{x}m-%{x}d+%{x}H:%{x}M:%{x}S|%{x}Y-%{x}m-%{x}d %{x}H:%{x}M|%{}\n", match x { 'A' => 'a', 'T' => 't', _ => 'c' });
    let flag = ["-P", "-P", "-L", "-H"][c.via_link as usize % 4];
    let o = ctx.find(&[flag, entry, "-printf", &fmt]);
    let desc = |extra: &str| format!("{}{} time {secs}.{ns:09} (TZ=UTC)\nfind {flag} {entry} -printf {fmt:?}\nexit {} stdout {:?} stderr {:?}\n{extra}", if c.via_link > 0 { "c/l -> f, a link with time stamps of its own; the record the follow mode selects has the " } else { "file c/f with " }, match x { 'A' => "access", 'T' => "modification", _ => "status-change" }, o.status, lossy(&o.stdout), lossy(&o.stderr));
    if let Some(p) = &o.panic {
        return fail(format!("C16:panic:{}", p.split(": ").next().unwrap_or("?")), desc(p));
    }
    let era = if secs < 0 { "before-1970" } else { "after-1970" };
    let text = lossy(&o.stdout);
    let fields: Vec<&str> = text.strip_suffix('\n').unwrap_or(&text).split('|').collect();
    if o.status != 0 || fields.len() != 6 || !text.ends_with('\n') {
        return fail(format!("C16:time-directive:line-incomplete-or-error:{era}"), desc("expected six '|'-separated fields, a newline and exit 0"));
    }
    // %X@: the time stamp in decimal, seconds and a ten-digit fraction.  Before 1970 with a
    // fraction both the timespec reading (tv_sec, then tv_nsec) and the arithmetic reading are taken.
    let mut at_alts = vec![format!("{secs}.{ns:09}0")];
    if secs < 0 && ns > 0 {
        let whole = secs + 1;
        at_alts.push(format!("{}{}.{:09}0", if whole == 0 { "-" } else { "" }, whole, 1_000_000_000 - ns));
    }
    let pad = |v: &str| match c.width {
        Some((left, w)) if v.chars().count() < w as usize => {
            let blanks = " ".repeat(w as usize - v.chars().count());
            if left { format!("{v}{blanks}") } else { format!("{blanks}{v}") }
        }
        _ => v.to_string(),
    };
    if !at_alts.iter().any(|a| pad(a) == fields[0]) {
        return fail(format!("C16:%{x}@:{era}{}", if c.width.is_some() { ":width" } else { "" }), desc(&format!("%{x}@ expected {:?}", at_alts.iter().map(|a| pad(a)).collect::<Vec<_>>())));
    }
    let frac_kind = if ns == 0 { "zero-fraction" } else if ns % 10 == 0 { "fraction-ends-in-zeros" } else { "full-fraction" };
    let want_s = format!("{:02}.{ns:09}0", secs.rem_euclid(60));
    if fields[1] != want_s {
        return fail(format!("C16:%{x}S:{frac_kind}"), desc(&format!("%{x}S expected {want_s:?}")));
    }
    let (y, m, d) = civil_from_days(secs.div_euclid(86_400));
    let sod = secs.rem_euclid(86_400);
    let want_min = format!("{y:04}-{m:02}-{d:02} {:02}:{:02}", sod / 3600, sod % 3600 / 60);
    if fields[4] != want_min {
        return fail(format!("C16:%{x}Y-m-d-H-M:{era}"), desc(&format!("expected {want_min:?}")));
    }
    // %X+ is the date, '+', the time with the ten-digit fraction: the same text as its parts give
    let want_plus = format!("{y:04}-{m:02}-{d:02}+{:02}:{:02}:{want_s}", sod / 3600, sod % 3600 / 60);
    if fields[3] != want_plus {
        return fail(format!("C16:%{x}Y-%{x}m-%{x}d+%{x}H:%{x}M:%{x}S:{frac_kind}"), desc(&format!("expected {want_plus:?}")));
    }
    if fields[2] != want_plus {
        return fail(format!("C16:%{x}+:{frac_kind}"), desc(&format!("%{x}+ expected {want_plus:?} (what %{x}Y-%{x}m-%{x}d+%{x}H:%{x}M:%{x}S gives)")));
    }
    // %a %c %t: the time as ctime(3) writes it - day of the month padded with a blank - with the
    // ten-digit fraction after the seconds
    let days = secs.div_euclid(86_400);
    let want_ctime = format!(
        "{} {} {d:>2} {:02}:{:02}:{want_s} {y}",
        ["Thu", "Fri", "Sat", "Sun", "Mon", "Tue", "Wed"][days.rem_euclid(7) as usize],
        ["Jan", "Feb", "Mar", "Apr", "May", "Jun", "Jul", "Aug", "Sep", "Oct", "Nov", "Dec"][m as usize - 1],
        sod / 3600,
        sod % 3600 / 60
    );
    if fields[5] != want_ctime {
        let l = match x { 'A' => 'a', 'T' => 't', _ => 'c' };
        return fail(format!("C16:%{l}:{}", if d < 10 { "day-of-month-below-10" } else { "other" }), desc(&format!("%{l} expected {want_ctime:?} (ctime(3) with the fraction)")));
    }
    Pass::new(ns % 10 == 0 || secs < 0 || c.width.is_some() || d < 10)
        .class_if(d < 10, "day-of-month-below-10")
        .class(frac_kind)
        .class(era)
        .class(match x { 'A' => "access-time", 'T' => "modification-time", _ => "status-change-time" })
        .class_if(c.width.is_some(), "width-on-time-directive")
        .class_if(c.via_link == 1, "link-under-P-own-times")
        .class_if(c.via_link >= 2, "link-resolved-by-follow-mode-target-times")
        .sample(json!({"secs": secs, "ns": ns, "which": x.to_string(), "output": text}))
        .ok()
}

// ---- identities -------------------------------------------------------------------

#[derive(Serialize, Deserialize, Debug, Clone)]
pub struct IdCase {
    pub root: u8,
    pub follow: u8,
    pub mode_seed: u16,
}

fn check_identities(ctx: &mut Ctx, c: &IdCase) -> Outcome {
    ctx.fresh_case_dir();
    tree(c.mode_seed).build();
    let abs = ctx.root.to_string_lossy().into_owned();
    let root = ROOTS[c.root as usize % ROOTS.len()].replace("@ABS@", &abs);
    let fm = follow_of(c.follow);
    let split = |b: &[u8]| -> Vec<String> {
        let mut v: Vec<String> = b.split(|x| *x == 0).map(|s| lossy(s)).collect();
        v.pop();
        v
    };
    let run = |ctx: &mut Ctx, tail: &[&str]| -> Vec<String> {
        let mut a = vec![fm.flag(), root.as_str(), "-sorted"];
        a.extend_from_slice(tail);
        split(&ctx.find(&a).stdout)
    };
    let printed = run(ctx, &["-print0"]);
    let p = run(ctx, &["-printf", "%p\\0"]);
    if p != printed {
        return fail(format!("C16:identity:%p-differs-from-print:{}", fm.flag()), format!("find {} {root} -print0 vs -printf %p: {:?} vs {:?}", fm.flag(), printed, p));
    }
    let hp = run(ctx, &["-printf", "%H\\0"]);
    let pp = run(ctx, &["-printf", "%P\\0"]);
    let dd = run(ctx, &["-printf", "%d\\0"]);
    let mut h_fail: Option<Outcome> = None;
    for i in 0..printed.len() {
        let depth: usize = dd[i].parse().unwrap_or(0);
        if hp[i] != root {
            let k = if depth == 0 { "depth0" } else { "below" };
            let norm = if root.ends_with('/') || root.ends_with("/.") || root.contains("//") || root.contains("/../") || root.contains("/./") { ":root-not-in-normal-form" } else { "" };
            let sig = if norm.is_empty() { format!("C16:%H:{k}:{}", fm.flag()) } else { format!("C16:%H:{k}:root-not-in-normal-form") };
            // reported after the other identities were checked (so that a listed finding does not hide them)
            if h_fail.is_none() {
                h_fail = Some(fail(sig, format!("find {} {root} -printf %H on {:?}: {:?}, starting point as given: {root:?}", fm.flag(), printed[i], hp[i])));
            }
            continue;
        }
        if depth >= 1 {
            let recomposed = if root.ends_with('/') { format!("{}{}", hp[i], pp[i]) } else { format!("{}/{}", hp[i], pp[i]) };
            // for a starting point ending in '/', %H + %P (the separating slash is already there)
            let alt = format!("{}{}", hp[i].trim_end_matches('/'), format!("/{}", pp[i]));
            if recomposed != printed[i] && !(root.ends_with('/') && alt == printed[i].replace("//", "/")) {
                return fail(format!("C16:identity:%H/%P-does-not-recompose-%p:{}", fm.flag()), format!("%H={:?} %P={:?} %p={:?}", hp[i], pp[i], printed[i]));
            }
        }
    }
    // %y / %Y agree with -type / -xtype
    let yy = run(ctx, &["-printf", "%y\\0"]);
    let big_y = run(ctx, &["-printf", "%Y\\0"]);
    for t in ['f', 'd', 'l', 'p', 's'] {
        let ts = t.to_string();
        let sel_type = run(ctx, &["-type", &ts, "-print0"]);
        let sel_xtype = run(ctx, &["-xtype", &ts, "-print0"]);
        for (i, path) in printed.iter().enumerate() {
            let in_type = sel_type.contains(path);
            if in_type != (yy[i] == ts) {
                return fail(format!("C16:%y:disagrees-with-type:{}", fm.flag()), format!("find {} {root}: entry {path:?}: %y={:?} but -type {t} selects it: {in_type}", fm.flag(), yy[i]));
            }
            let in_xtype = sel_xtype.contains(path);
            let y_ok = if t == 'l' { in_xtype == ["l", "N", "L", "?"].contains(&big_y[i].as_str()) } else { in_xtype == (big_y[i] == ts) };
            if !y_ok {
                return fail(format!("C16:%Y:disagrees-with-xtype:{}", fm.flag()), format!("find {} {root}: entry {path:?}: %Y={:?} but -xtype {t} selects it: {in_xtype}", fm.flag(), big_y[i]));
            }
        }
    }
    if let Some(f) = h_fail {
        return f;
    }
    Pass::new(true).class("identities").evals(printed.len() as u64 * 6).ok()
}

// ---- directives that cannot be evaluated --------------------------------------------------------------

/// The built binary as uid 65534 on a directory that can be listed but not searched (mode 744): the
/// entries in it are met but cannot be stat'ed, so %s %m %n %i %U %G have no value for them.  The
/// record is then either left out or complete (every literal character of the format present, the
/// value-less directives rendered as anything without the separator), with a diagnostic and a
/// non-zero exit status; the records of the other entries are exact.
#[derive(Serialize, Deserialize, Debug, Clone)]
pub struct NoStatCase {
    /// directive letters between the separators
    pub letters: Vec<char>,
    pub to_file: bool,
}

fn check_nostat(ctx: &mut Ctx, c: &NoStatCase) -> Outcome {
    use crate::engine::proc::{find_bin, BinOpts};
    use std::os::unix::fs::PermissionsExt;
    ctx.fresh_case_dir();
    std::fs::create_dir_all("c/u/noexec").unwrap();
    std::fs::write("c/u/noexec/a", b"xx").unwrap();
    std::fs::write("c/u/noexec/b", b"").unwrap();
    std::fs::write("c/u/plain", b"abc").unwrap();
    std::fs::set_permissions("c/u/noexec", std::fs::Permissions::from_mode(0o744)).unwrap();
    std::fs::set_permissions("c", std::fs::Permissions::from_mode(0o755)).unwrap();
    let fmt: String = format!("[%p|{}|END]\\n", c.letters.iter().map(|l| format!("%{l}")).collect::<Vec<_>>().join("|"));
    let args: Vec<String> = vec!["c/u".into(), "-sorted".into(), "-printf".into(), fmt.clone()];
    let o = ctx.run_bin(&find_bin(), &args, &BinOpts { uid: Some(65534), ..Default::default() });
    let desc = format!("(uid 65534) find c/u -sorted -printf {fmt:?}\nexit {:?} signal {:?}\nstdout {:?}\nstderr {:?}", o.code, o.signal, lossy(&o.stdout), lossy(&o.stderr[..o.stderr.len().min(400)]));
    if !o.ordinary() {
        return fail("C16:unevaluable-directive:abnormal-termination", desc);
    }
    // expected records of the entries that can be examined
    let exact = |path: &str| -> String {
        let m = std::fs::symlink_metadata(path).unwrap();
        let vals: Vec<String> = c.letters.iter().map(|l| match l {
            's' => m.len().to_string(),
            'm' => format!("{:o}", m.mode() & 0o7777),
            'n' => m.nlink().to_string(),
            'i' => m.ino().to_string(),
            'U' => m.uid().to_string(),
            'G' => m.gid().to_string(),
            'd' => (path.matches('/').count() - 1).to_string(),
            'f' => path.rsplit('/').next().unwrap().to_string(),
            _ => RefEntry::type_letter(&m).to_string(),
        }).collect();
        format!("[{path}|{}|END]\n", vals.join("|"))
    };
    let out = lossy(&o.stdout);
    let mut rest: &str = &out;
    for path in ["c/u", "c/u/noexec"] {
        let want = exact(path);
        if !rest.starts_with(&want) {
            return fail("C16:unevaluable-directive:other-record-differs", format!("{desc}\nexpected next {want:?}"));
        }
        rest = &rest[want.len()..];
    }
    let needs_stat = c.letters.iter().any(|l| "smniUG".contains(*l));
    for path in ["c/u/noexec/a", "c/u/noexec/b"] {
        let head = format!("[{path}|");
        if !rest.starts_with(&head) {
            if needs_stat {
                continue; // record left out
            }
            return fail("C16:unevaluable-directive:record-missing-although-nothing-needs-the-status-record", desc);
        }
        // a complete record: as many separators as the format has, then END]\n
        let Some(end) = rest.find('\n') else { return fail("C16:unevaluable-directive:record-truncated", desc) };
        let rec = &rest[..=end];
        if rec.matches('|').count() != c.letters.len() + 1 || !rec.ends_with("|END]\n") {
            return fail("C16:unevaluable-directive:record-truncated", desc);
        }
        rest = &rest[end + 1..];
    }
    let want = exact("c/u/plain");
    if rest != want {
        return fail("C16:unevaluable-directive:other-record-differs", format!("{desc}\nexpected last {want:?}, found {rest:?}"));
    }
    if needs_stat && (o.code == Some(0) || o.stderr.is_empty()) {
        return fail("C16:unevaluable-directive:not-reported", desc);
    }
    Pass::new(needs_stat).class("directive-without-a-value").sample(json!({"cmdline": format!("(uid 65534) find c/u -sorted -printf {fmt:?}"), "exit": o.code})).ok()
}

fn run(w: &mut Worker) {
    w.regress::<Case>("format", check);
    w.regress::<IdCase>("identities", check_identities);
    w.regress::<NoStatCase>("no-status-record", check_nostat);
    w.regress::<TimeCase>("times", check_times);
    w.random("times", w.tier.pick(6_000, 100_000), (6, 12), 100, gen_time_case, check_times);
    let mut ns: Vec<NoStatCase> = vec![];
    for l in ['s', 'm', 'n', 'i', 'U', 'G', 'y', 'd', 'f'] {
        ns.push(NoStatCase { letters: vec![l], to_file: false });
        ns.push(NoStatCase { letters: vec!['y', l, 'd'], to_file: false });
        ns.push(NoStatCase { letters: vec![l, 's'], to_file: false });
    }
    w.exhaustive("no-status-record", "the binary as uid 65534 on entries that cannot be stat'ed (a listable, unsearchable directory): each directive alone and between others; the record is left out or complete, with a diagnostic and a non-zero status", ns.into_iter(), check_nostat);
    let mut ids = vec![];
    for root in 0..ROOTS.len() as u8 {
        for follow in 0..3u8 {
            ids.push(IdCase { root, follow, mode_seed: 7 });
        }
    }
    w.exhaustive("identities", "every starting-point spelling x follow mode: %p == -print, %H as given, %H/%P recompose %p, %y/%Y agree with -type/-xtype", ids.into_iter(), check_identities);
    let alpha = alphabet();
    let maxc = w.tier.pick(2usize, 3);
    let mut small: Vec<Case> = vec![];
    let mut k = 0u32;
    for a in &alpha {
        small.push(Case { fmt: vec![a.clone()], root: 0, follow: 0, to_file: false, mode_seed: 1, depth: false });
        for b in &alpha {
            k += 1;
            small.push(Case { fmt: vec![a.clone(), b.clone()], root: (k % 8) as u8, follow: (k % 3) as u8, to_file: false, mode_seed: k as u16, depth: k % 5 == 4 });
            if maxc >= 3 {
                for c3 in &alpha {
                    k += 1;
                    small.push(Case { fmt: vec![a.clone(), b.clone(), c3.clone()], root: (k % 8) as u8, follow: (k % 3) as u8, to_file: false, mode_seed: k as u16, depth: k % 5 == 4 });
                }
            }
        }
    }
    w.exhaustive("format-small", &format!("every format of <= {maxc} components over a {}-component alphabet (starting point and follow mode cycled)", alpha.len()), small.into_iter(), check);
    w.random("format", w.tier.pick(80_000, 1_000_000), (30, 120), 600, gen_case, check);
}

fn replay(w: &mut Worker, sub: &str, v: Value) -> Outcome {
    if sub == "identities" {
        check_identities(&mut w.ctx, &decode(v))
    } else if sub == "no-status-record" {
        check_nostat(&mut w.ctx, &decode(v))
    } else if sub == "times" {
        check_times(&mut w.ctx, &decode(v))
    } else {
        check(&mut w.ctx, &decode(v))
    }
}

/// libFuzzer entry.  Byte 0 even: the remaining bytes are the choice stream of the format
/// generator; the format is rendered by find on the entry "." (the fuzz process's own working
/// directory, depth 0) and compared with the independent renderer.  Byte 0 odd: the remaining
/// bytes are raw format text - oracle: no panic (a diagnostic is fine).
pub fn fuzz_one(data: &[u8]) -> Option<crate::engine::Violation> {
    if data.len() < 2 {
        return None;
    }
    if data[0] % 2 == 1 {
        let text = String::from_utf8_lossy(&data[1..data.len().min(200)]).replace('\0', "");
        // widths are bounded by the parser (<= 65535); nothing here can produce more than ~1 MB
        let _ = crate::engine::proc::find_plain(&[".", "-maxdepth", "0", "-printf", &text]);
        return None;
    }
    let words = crate::words_of(&data[1..]);
    let mut g = Gen::new(&words);
    let n = g.usize_in(1, 8);
    let fmt: Vec<Comp> = (0..n).map(|_| gen_comp(&mut g, false)).collect();
    let text = render_fmt(&fmt);
    let e = crate::engine::fsx::make_entry(".", 0, FollowMode::P)?;
    let alts = expected_for(&fmt, &e, ".")?;
    let (status, out) = crate::engine::proc::find_plain(&[".", "-maxdepth", "0", "-printf", &text]);
    if status != 0 || !alts.iter().any(|a| *a == out) {
        return Some(crate::engine::Violation {
            signature: "C16:fuzz:rendering-of-dot-differs".into(),
            detail: format!("find . -maxdepth 0 -printf {text:?}\nexit {status}\nexpected one of {:?}\nobserved {:?}", alts.iter().map(|a| lossy(a)).collect::<Vec<_>>(), lossy(&out)),
        });
    }
    None
}
