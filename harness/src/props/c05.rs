//! C05 — xargs input splitting: quoting, -0/-d, independent of read() chunking.

use super::{decode, PropDef};
use crate::engine::proc::{lossy, BinOpts, Ctx};
use crate::engine::xa::{rec_path, run_xargs};
use crate::engine::{fail, Gen, Outcome, Pass, Worker};
use findutils::xargs::verif_hooks::read_args;
use serde::{Deserialize, Serialize};
use serde_json::{json, Value};
use std::ffi::OsString;

pub static DEF: PropDef = PropDef {
    id: "C05",
    rule: "exhaustive: every string up to the stated length over {a,SP,TAB,NL,',\",\\,é} x EVERY cut set of its byte stream (each string is one case, evaluations count string x cut-set pairs); random: byte strings up to ~20 KiB (tokens straddling the 4096-byte refill edge, long quoted runs, arbitrary bytes incl. invalid UTF-8, CR/FF/VT) x generated chunkings (1-byte, after-backslash, inside quotes, inside multi-byte characters, 4096-aligned), default mode and -0/-d C. Oracles: (i) chunking invariance against the single-read result, (ii) reference splitter written from the statement on its specified sub-domain, (iii) delimiter mode = non-empty fields, bytes unchanged; 1 in 30 random inputs (1 in 12 in delimiter mode) also through the xargs binary + rec, and through the binary without a command (its own echo must print the arguments byte for byte); in delimiter mode the fields additionally travel by a second route - -n 1, -I {}, or -I @@ with pre@@post - and must reach the recorder byte for byte. Non-trivial = input has a quote or backslash (delimiter mode: a quote, backslash or non-UTF-8 byte) AND some cut falls inside a token / multi-byte character / at the 4096 edge. Distinct = distinct case JSON.",
    assumptions: &[
        "the readers are reached through the feature-gated hook xargs::verif_hooks::read_args (the Read it wraps hands out caller-chosen chunk sizes); the end-to-end sample goes through the real binary and pipe",
        "a backslash at the very end of the input quotes nothing: it neither begins nor extends an argument; CR, FF and VT are neither blanks nor newlines: ordinary bytes of an argument",
    ],
    run,
    replay,
    fuzz: Some(fuzz_one),
};

// ---- reference splitter (DESIGN.md Appendix B) ------------------------------

#[derive(Debug, PartialEq, Eq, Clone)]
pub enum Ref {
    Tokens(Vec<(Vec<u8>, bool)>),
    Error,
    Unspecified,
}

pub fn reference_split(input: &[u8]) -> Ref {
    let mut out = vec![];
    let mut tok: Vec<u8> = vec![];
    let mut started = false;
    let mut quote: Option<u8> = None;
    let mut escaped = false;
    let mut started_before_escape = false;
    for &c in input {
        if let Some(q) = quote {
            if c == q {
                quote = None;
            } else {
                tok.push(c);
            }
        } else if escaped {
            tok.push(c);
            escaped = false;
        } else if c == b'\'' || c == b'"' {
            quote = Some(c);
            started = true;
        } else if c == b'\\' {
            escaped = true;
            started_before_escape = started;
            started = true;
        } else if c == b' ' || c == b'\t' || c == b'\n' {
            // a token that was begun by a quote is an argument even when nothing is between the
            // quotes: '' is taken literally, as the empty string
            if started {
                out.push((std::mem::take(&mut tok), c == b'\n'));
                started = false;
            }
        } else {
            tok.push(c);
            started = true;
        }
    }
    if quote.is_some() {
        return Ref::Error;
    }
    if escaped {
        // a backslash with nothing after it quotes nothing: it adds nothing to a token that has
        // begun, and does not begin one ("no argument that is not in the input")
        started = !tok.is_empty() || started_before_escape;
    }
    if started {
        out.push((tok, false));
    }
    Ref::Tokens(out)
}

pub fn reference_delim(input: &[u8], d: u8) -> Vec<(Vec<u8>, bool)> {
    input.split(|b| *b == d).filter(|f| !f.is_empty()).map(|f| (f.to_vec(), true)).collect()
}

type Res = Result<Vec<(Vec<u8>, bool)>, String>;

fn same(a: &Res, b: &Res) -> bool {
    match (a, b) {
        (Ok(x), Ok(y)) => x == y,
        (Err(_), Err(_)) => true,
        _ => false,
    }
}

fn show(r: &Res) -> String {
    match r {
        Ok(v) => format!("{:?}", v.iter().map(|(b, h)| format!("{}{}", lossy(b).escape_debug(), if *h { "⏎" } else { "" })).collect::<Vec<_>>()),
        Err(e) => format!("Err({e})"),
    }
}

// ---- exhaustive: strings x all cut sets ------------------------------------

const SYMS: &[&[u8]] = &[b"a", b" ", b"\t", b"\n", b"'", b"\"", b"\\", "é".as_bytes()];

#[derive(Serialize, Deserialize, Debug, Clone)]
pub struct SymCase {
    pub syms: Vec<u8>,
}

struct SymStrings {
    len: usize,
    max: usize,
    idx: Vec<u8>,
    done: bool,
}

impl Iterator for SymStrings {
    type Item = SymCase;
    fn next(&mut self) -> Option<SymCase> {
        if self.done {
            return None;
        }
        let cur = SymCase { syms: self.idx.clone() };
        let mut k = self.len;
        loop {
            if k == 0 {
                self.len += 1;
                if self.len > self.max {
                    self.done = true;
                } else {
                    self.idx = vec![0; self.len];
                }
                break;
            }
            k -= 1;
            self.idx[k] += 1;
            if (self.idx[k] as usize) < SYMS.len() {
                break;
            }
            self.idx[k] = 0;
        }
        Some(cur)
    }
}

fn sig_of_input(input: &[u8]) -> &'static str {
    let q = input.iter().any(|b| *b == b'\'' || *b == b'"');
    let e = input.contains(&b'\\');
    let trailing = input.last().map_or(false, |b| b" \t\n".contains(b));
    match (q, e, trailing) {
        (true, true, _) => "quote+backslash",
        (true, false, _) => "quote",
        (false, true, _) => "backslash",
        (false, false, true) => "plain-trailing-separator",
        _ => "plain",
    }
}

fn check_sym(_ctx: &mut Ctx, c: &SymCase) -> Outcome {
    let input: Vec<u8> = c.syms.iter().flat_map(|s| SYMS[*s as usize].iter().copied()).collect();
    check_all_cuts(&input, true)
}

/// all cut sets of `input` (or, when `all` is false, single cuts and the all-1-byte chunking)
fn check_all_cuts(input: &[u8], all: bool) -> Outcome {
    let whole: Res = read_args(input, &[input.len().max(1)], None);
    let reference = reference_split(input);
    match (&reference, &whole) {
        (Ref::Tokens(t), Ok(w)) if t == w => {}
        (Ref::Error, Err(_)) => {}
        (Ref::Unspecified, _) => {}
        _ => {
            return fail(
                format!("C05:differs-from-reference-splitter:{}", sig_of_input(input)),
                format!("input {:?}\nreference: {:?}\nxargs reader (single read): {}", lossy(input), reference, show(&whole)),
            )
        }
    }
    let l = input.len();
    let mut evals = 1u64;
    if l >= 2 {
        let check_mask = |mask: u64| -> Option<Outcome> {
            let mut chunks = vec![];
            let mut run = 1usize;
            for i in 0..l - 1 {
                if i < 64 && mask >> i & 1 == 1 {
                    chunks.push(run);
                    run = 1;
                } else {
                    run += 1;
                }
            }
            chunks.push(run);
            let r = read_args(input, &chunks, None);
            if !same(&r, &whole) {
                return Some(fail(
                    format!("C05:chunking-changes-result:{}", sig_of_input(input)),
                    format!("input {:?}\nchunks {:?}\nsingle read: {}\nchunked:     {}", lossy(input), chunks, show(&whole), show(&r)),
                ));
            }
            None
        };
        if all && l <= 17 {
            for mask in 1u64..(1u64 << (l - 1)) {
                evals += 1;
                if let Some(f) = check_mask(mask) {
                    return f;
                }
            }
        } else {
            for i in 0..(l - 1).min(63) {
                evals += 1;
                if let Some(f) = check_mask(1u64 << i) {
                    return f;
                }
            }
            evals += 1;
            if let Some(f) = check_mask(if l - 1 >= 64 { u64::MAX } else { (1u64 << (l - 1)) - 1 }) {
                return f;
            }
        }
    }
    let special = input.iter().any(|b| matches!(b, b'\'' | b'"' | b'\\'));
    let has_token_bytes = input.iter().any(|b| !b" \t\n".contains(b));
    Pass::new(special && l >= 2 && has_token_bytes)
        .evals(evals)
        .class_if(matches!(reference, Ref::Unspecified), "outside-reference-domain")
        .class_if(matches!(reference, Ref::Error), "unterminated-quote")
        .class_if(input.iter().any(|b| *b >= 0x80), "multibyte")
        .ok()
}

// ---- random inputs x chunkings -----------------------------------------------

#[derive(Serialize, Deserialize, Debug, Clone)]
pub struct Case {
    /// the input, as byte values (kept as a vector so that invalid UTF-8 survives JSON)
    pub input: Vec<u8>,
    pub chunkings: Vec<Vec<usize>>,
    /// None = default mode; Some(d) = -0 / -d
    pub delim: Option<u8>,
    pub via_binary: bool,
    /// delimiter mode through the binary: how the fields travel from the reader to the command -
    /// 0 appended in batches, 1 one per command (-n 1), 2 substituted (-I {}), 3 substituted inside a
    /// word (-I {} with pre{}post)
    #[serde(default)]
    pub route: u8,
}

fn gen_input(g: &mut Gen, delim: Option<u8>) -> Vec<u8> {
    let mut v: Vec<u8> = vec![];
    let pieces = g.usize_in(0, 24);
    let words: &[&[u8]] = &[b"a", b"bc", b"x-y", b"-n", "é".as_bytes(), "日本".as_bytes(), "𝄞".as_bytes(), b"{}", b"$(x)", b"*"];
    for _ in 0..pieces {
        match g.weighted(&[8, 6, 4, 3, 3, 2, 2, 1, 1, 2]) {
            0 => v.extend_from_slice(g.pick(words)),
            1 => v.extend_from_slice(g.pick(&[b" ".as_slice(), b"  ", b"\t", b" \t "])),
            2 => v.extend_from_slice(g.pick(&[b"\n".as_slice(), b"\n\n", b" \n", b"\n "])),
            3 => {
                // quoted run (terminated, sometimes not)
                let q = g.pick(&[b'\'', b'"']);
                v.push(q);
                let n = if g.chance(1, 10) { g.usize_in(100, 5000) } else { g.usize_in(0, 8) };
                for _ in 0..n {
                    let b = g.pick(&[b'a', b' ', b'\n', b'\\', b'x', if q == b'"' { b'\'' } else { b'"' }, 0xc3, 0xa9, b'\t']);
                    v.push(b);
                }
                if !g.chance(1, 12) {
                    v.push(q);
                }
            }
            4 => {
                v.push(b'\\');
                if !g.chance(1, 15) {
                    v.push(g.pick(&[b' ', b'\n', b'\\', b'\'', b'"', b'a', b'\t', 0xc3]));
                }
            }
            5 => {
                // filler so that what follows straddles the 4096-byte refill edge
                let target = 4096 * g.usize_in(1, 4);
                let slack = g.usize_in(0, 6);
                let cur = v.len();
                if cur + slack < target {
                    let fill = target - slack - cur;
                    let ch = g.pick(&[b'f', b'g']);
                    for i in 0..fill {
                        v.push(if i % 97 == 96 { b' ' } else { ch });
                    }
                }
            }
            6 => v.push(g.below(256) as u8), // arbitrary byte, incl. invalid UTF-8 and NUL
            7 => v.extend_from_slice(g.pick(&[b"\r".as_slice(), b"\x0c", b"\x0b"])),
            8 => v.extend_from_slice(g.pick(&[b"''".as_slice(), b"\"\"", b"'' ", b" ''"])),
            _ => {
                if let Some(d) = delim {
                    v.push(d);
                    if g.chance(1, 4) {
                        v.push(d);
                    }
                } else {
                    v.push(b' ');
                }
            }
        }
    }
    if delim.is_none() {
        // NUL is not meaningful in default mode text; keep it out of the reference domain
        v.retain(|b| *b != 0);
    }
    v
}

fn gen_chunking(g: &mut Gen, input: &[u8]) -> Vec<usize> {
    let l = input.len().max(1);
    match g.below(6) {
        0 => vec![1; l],
        1 => {
            // random small chunks
            let mut v = vec![];
            let mut left = l;
            while left > 0 && v.len() < 4000 {
                let n = g.usize_in(1, 7).min(left);
                v.push(n);
                left -= n;
            }
            v
        }
        2 => {
            // cut right after every backslash / quote byte and inside multi-byte characters
            let mut v = vec![];
            let mut run = 0usize;
            for b in input {
                run += 1;
                if matches!(b, b'\\' | b'\'' | b'"') || *b >= 0xc0 {
                    v.push(run);
                    run = 0;
                }
            }
            if run > 0 {
                v.push(run);
            }
            v
        }
        3 => {
            // 4096-aligned reads with an odd first read
            let first = g.usize_in(1, 4096);
            let mut v = vec![first];
            v.extend(std::iter::repeat(4096).take(l / 4096 + 2));
            v
        }
        4 => {
            // one cut
            let at = g.usize_in(1, l);
            vec![at, l]
        }
        _ => {
            // mixture: large then tiny
            let mut v = vec![];
            let mut left = l;
            while left > 0 && v.len() < 4000 {
                let n = if g.chance(1, 4) { g.usize_in(1, 3) } else { g.usize_in(1, 5000) }.min(left);
                v.push(n);
                left -= n;
            }
            v
        }
    }
}

pub fn gen_case(g: &mut Gen) -> Case {
    let delim = match g.weighted(&[6, 2, 1, 1]) {
        0 => None,
        1 => Some(0u8),
        2 => Some(b','),
        _ => Some(b'\n'),
    };
    let input = gen_input(g, delim);
    let chunkings = (0..g.usize_in(1, 4)).map(|_| gen_chunking(g, &input)).collect();
    let via_binary = if delim.is_some() { g.chance(1, 12) } else { g.chance(1, 30) };
    Case { input, chunkings, delim, via_binary, route: if delim.is_some() { g.below(4) as u8 } else { 0 } }
}

fn cut_positions(chunks: &[usize], len: usize) -> Vec<usize> {
    let mut pos = 0;
    let mut v = vec![];
    for c in chunks {
        pos += (*c).min(4096);
        if pos >= len {
            break;
        }
        v.push(pos);
    }
    v
}

pub fn check(ctx: &mut Ctx, c: &Case) -> Outcome {
    let input = &c.input;
    let whole: Res = read_args(input, &[usize::MAX], c.delim);
    let mode = if c.delim.is_some() { "delimiter" } else { "default" };
    let nonutf8 = std::str::from_utf8(input).is_err();
    // reference
    match c.delim {
        None => {
            let reference = reference_split(input);
            let ok = match (&reference, &whole) {
                (Ref::Tokens(t), Ok(w)) => t == w,
                (Ref::Error, Err(_)) => true,
                (Ref::Unspecified, _) => true,
                _ => false,
            };
            if !ok {
                let kind = if nonutf8 { "non-utf8-bytes".to_string() } else { sig_of_input(input).to_string() };
                return fail(format!("C05:differs-from-reference-splitter:{kind}"), format!("input {:?}\nreference: {:?}\nxargs reader (single read): {}", lossy(input), reference, show(&whole)));
            }
        }
        Some(d) => {
            let reference = reference_delim(input, d);
            if whole.as_ref().ok() != Some(&reference) {
                let kind = if nonutf8 { "non-utf8-bytes" } else { "fields" };
                return fail(format!("C05:delimiter-mode-differs:{kind}"), format!("delimiter {d}\ninput {:?}\nreference: {:?}\nxargs reader: {}", lossy(input), reference.iter().map(|(b, _)| lossy(b)).collect::<Vec<_>>(), show(&whole)));
            }
        }
    }
    // chunking invariance
    let mut cut_inside = false;
    for ch in &c.chunkings {
        let r = read_args(input, ch, c.delim);
        if !same(&r, &whole) {
            return fail(format!("C05:chunking-changes-result:{mode}:{}", sig_of_input(input)), format!("input ({} bytes) {:?}\nchunks {:?}\nsingle read: {}\nchunked:     {}", input.len(), lossy(&input[..input.len().min(300)]), &ch[..ch.len().min(50)], show(&whole), show(&r)));
        }
        for p in cut_positions(ch, input.len()) {
            let sep = |b: u8| match c.delim {
                Some(d) => b == d,
                None => b" \t\n".contains(&b),
            };
            if !sep(input[p - 1]) && !sep(input[p]) {
                cut_inside = true;
            }
        }
    }
    // end to end through the binary
    if c.via_binary && !input.contains(&0) || (c.via_binary && c.delim == Some(0)) {
        if let Ok(tokens) = &whole {
            let total: usize = tokens.iter().map(|(t, _)| t.len() + 1).sum();
            if total < 100_000 && tokens.iter().all(|(t, _)| !t.contains(&0)) {
                let mut opts: Vec<OsString> = vec![];
                match c.delim {
                    Some(0) => opts.push("-0".into()),
                    Some(b',') => {
                        opts.push("-d".into());
                        opts.push(",".into());
                    }
                    Some(_) => {
                        opts.push("-d".into());
                        opts.push("\\n".into());
                    }
                    None => {}
                }
                let run = run_xargs(ctx, &opts, &[rec_path()], input, "", BinOpts { clear_env: true, ..Default::default() });
                let got: Vec<Vec<u8>> = run.records.iter().flat_map(|r| r.args.clone()).collect();
                let want: Vec<Vec<u8>> = tokens.iter().map(|(t, _)| t.clone()).collect();
                // the same input with no command at all: xargs' own echo prints the arguments, byte for byte
                let echo = run_xargs(ctx, &opts, &[], input, "", BinOpts { clear_env: true, ..Default::default() });
                let mut line: Vec<u8> = want.join(&b' ');
                line.push(b'\n');
                if echo.out.code != Some(0) || echo.out.stdout != line {
                    return fail(format!("C05:default-echo-alters-arguments:{mode}"), format!("xargs {opts:?} (no command)\ninput {:?}\nexit {:?} stderr {:?}\nexpected stdout {:?}\nobserved stdout {:?}", lossy(input), echo.out.code, lossy(&echo.out.stderr), lossy(&line), lossy(&echo.out.stdout)));
                }
                // delimiter mode: the same fields, byte for byte, whichever way they reach the command
                if c.delim.is_some() && c.route != 0 && !want.is_empty() && want.iter().all(|t| t.len() < 4000) {
                    let mut o2 = opts.clone();
                    let (cmd, expect): (Vec<OsString>, Vec<Vec<Vec<u8>>>) = match c.route {
                        1 => {
                            o2.push("-n".into());
                            o2.push("1".into());
                            (vec![rec_path()], want.iter().map(|t| vec![t.clone()]).collect())
                        }
                        2 => {
                            o2.push("-I".into());
                            o2.push("{}".into());
                            (vec![rec_path(), "{}".into()], want.iter().map(|t| vec![t.clone()]).collect())
                        }
                        _ => {
                            o2.push("-I".into());
                            o2.push("@@".into());
                            (vec![rec_path(), "pre@@post".into(), "@@".into()], want.iter().map(|t| vec![[b"pre".as_slice(), t, b"post"].concat(), t.clone()]).collect())
                        }
                    };
                    let r2 = run_xargs(ctx, &o2, &cmd, input, "", BinOpts { clear_env: true, ..Default::default() });
                    let got2: Vec<Vec<Vec<u8>>> = r2.records.iter().map(|r| r.args.clone()).collect();
                    if r2.out.code != Some(0) || got2 != expect {
                        let route = ["", "-n1", "-I", "-I-inside-a-word"][c.route as usize];
                        return fail(format!("C05:delimiter-mode-bytes-altered-on-the-way-to-the-command:{route}"), format!("xargs {o2:?} {cmd:?}\ninput {:?}\nexit {:?} stderr {:?}\nexpected argv per run: {:?}\nobserved: {:?}", lossy(input), r2.out.code, lossy(&r2.out.stderr), expect.iter().map(|r| r.iter().map(|a| lossy(a)).collect::<Vec<_>>()).collect::<Vec<_>>(), got2.iter().map(|r| r.iter().map(|a| lossy(a)).collect::<Vec<_>>()).collect::<Vec<_>>()));
                    }
                }
                if run.out.code != Some(0) || got != want {
                    return fail(format!("C05:binary-differs-from-reader:{mode}"), format!("input {:?}\nexit {:?} stderr {:?}\nreader tokens: {}\nrec argv: {:?}", lossy(input), run.out.code, lossy(&run.out.stderr), show(&whole), got.iter().map(|a| lossy(a)).collect::<Vec<_>>()));
                }
            }
        } else if c.delim.is_none() {
            // unterminated quote: xargs' own input error gives exit status 1
            let run = run_xargs(ctx, &[], &[rec_path()], input, "", BinOpts { clear_env: true, ..Default::default() });
            if run.out.code != Some(1) || run.out.stderr.is_empty() {
                return fail("C05:unterminated-quote-not-exit-1", format!("input {:?}\nexit {:?} stderr {:?}", lossy(input), run.out.code, lossy(&run.out.stderr)));
            }
        }
    }
    let special = match c.delim {
        None => input.iter().any(|b| matches!(b, b'\'' | b'"' | b'\\')),
        Some(_) => input.iter().any(|b| matches!(b, b'\'' | b'"' | b'\\')) || nonutf8,
    };
    Pass::new(special && cut_inside)
        .evals(1 + c.chunkings.len() as u64)
        .class_if(c.delim.is_some(), "delimiter-mode")
        .class_if(nonutf8, "invalid-utf8")
        .class_if(input.len() > 4096, "longer-than-one-buffer")
        .class_if(whole.is_err(), "unterminated-quote")
        .class_if(c.via_binary, "via-binary")
        .class_if(c.via_binary && c.delim.is_some() && c.route >= 2, "via-binary-delimiter-mode-with-I")
        .class_if(cut_inside, "cut-inside-token")
        .sample(json!({"mode": mode, "input_len": input.len(), "input_head": lossy(&input[..input.len().min(120)]), "chunkings": c.chunkings.iter().map(|c| c.iter().take(12).copied().collect::<Vec<_>>()).collect::<Vec<_>>()}))
        .ok()
}

fn run(w: &mut Worker) {
    w.regress::<Case>("bytes", check);
    w.regress::<SymCase>("symbols", check_sym);
    let max = w.tier.pick(6, 7);
    w.exhaustive("symbols", &format!("all strings of 1..={max} symbols over {{a,SP,TAB,NL,',\",\\,é}} x every cut set of the byte stream"), SymStrings { len: 1, max, idx: vec![0], done: false }, check_sym);
    if w.tier == crate::engine::Tier::Thorough {
        w.exhaustive("symbols8", "all strings of exactly 8 symbols x every single cut and the all-1-byte chunking", SymStrings { len: 8, max: 8, idx: vec![0; 8], done: false }, |_c, s| {
            let input: Vec<u8> = s.syms.iter().flat_map(|x| SYMS[*x as usize].iter().copied()).collect();
            check_all_cuts(&input, false)
        });
    }
    w.random("bytes", w.tier.pick(30_000, 400_000), (30, 300), 1500, gen_case, check);
}

fn replay(w: &mut Worker, sub: &str, v: Value) -> Outcome {
    match sub {
        "symbols" | "symbols8" => check_sym(&mut w.ctx, &decode(v)),
        _ => check(&mut w.ctx, &decode(v)),
    }
}

/// libFuzzer entry: byte 0 selects the reader (default / -0 / -d ','), the rest is the input.
/// Oracle: reference splitter (where it applies) and chunking invariance under every single cut
/// (first 63 positions), the all-1-byte chunking and a 4096-aligned one.
pub fn fuzz_one(data: &[u8]) -> Option<crate::engine::Violation> {
    if data.len() < 2 {
        return None;
    }
    let input = &data[1..data.len().min(9000)];
    match data[0] % 3 {
        0 => {
            let whole: Res = read_args(input, &[usize::MAX], None);
            let reference = reference_split(input);
            let ok = match (&reference, &whole) {
                (Ref::Tokens(t), Ok(w)) => t == w,
                (Ref::Error, Err(_)) => true,
                (Ref::Unspecified, _) => true,
                _ => false,
            };
            if !ok {
                return Some(crate::engine::Violation { signature: format!("C05:differs-from-reference-splitter:{}", sig_of_input(input)), detail: format!("input {:?}\nreference: {:?}\nreader: {}", lossy(input), reference, show(&whole)) });
            }
            // a dozen chunkings chosen by the input itself: all 1-byte, and cuts at positions named by its bytes
            let mut chunkings: Vec<Vec<usize>> = vec![vec![1usize; input.len()]];
            for k in 0..input.len().min(10) {
                let pos = 1 + (input[k] as usize * 7 + k * 31) % input.len();
                chunkings.push(vec![pos, 1, 1, usize::MAX]);
            }
            for ch in chunkings {
                let r = read_args(input, &ch, None);
                if !same(&r, &whole) {
                    return Some(crate::engine::Violation { signature: format!("C05:chunking-changes-result:{}", sig_of_input(input)), detail: format!("input {:?}\nchunks {:?}\nsingle read: {}\nchunked: {}", lossy(input), &ch[..ch.len().min(6)], show(&whole), show(&r)) });
                }
            }
            None
        }
        m => {
            let d = if m == 1 { 0u8 } else { b',' };
            let whole: Res = read_args(input, &[usize::MAX], Some(d));
            let reference = reference_delim(input, d);
            if whole.as_ref().ok() != Some(&reference) {
                return Some(crate::engine::Violation { signature: "C05:delimiter-mode-differs:fuzz".into(), detail: format!("delimiter {d} input {:?}", lossy(input)) });
            }
            let ones = vec![1usize; input.len()];
            let mut chunkings: Vec<Vec<usize>> = vec![ones, vec![4096; input.len() / 4096 + 1]];
            for k in 0..input.len().min(10) {
                let pos = 1 + (input[k] as usize * 7 + k * 31) % input.len();
                chunkings.push(vec![pos, 1, usize::MAX]);
            }
            for ch in chunkings {
                let r = read_args(input, &ch, Some(d));
                if !same(&r, &whole) {
                    return Some(crate::engine::Violation { signature: "C05:chunking-changes-result:delimiter:fuzz".into(), detail: format!("delimiter {d} input {:?} chunks {:?}", lossy(input), &ch[..ch.len().min(8)]) });
                }
            }
            None
        }
    }
}
