//! C19 — xargs exit status is the documented function of its children's outcomes.

use super::{decode, PropDef};
use crate::engine::proc::{lossy, BinOpts, Ctx};
use crate::engine::xa::{rec_path, run_xargs};
use crate::engine::{fail, Gen, Outcome, Pass, Worker};
use serde::{Deserialize, Serialize};
use serde_json::{json, Value};
use std::ffi::OsString;

pub static DEF: PropDef = PropDef {
    id: "C19",
    rule: "outcomes: sequences of 0-30 child outcomes over {exit 0, exit 1..125, exit 255, death by SIGTERM/SIGKILL/SIGUSR1/SIGINT/SIGSEGV-as-raise}, one invocation per outcome, 1 case in 6 with xargs' stderr connected to /dev/full (batching by -n k / -L k with k in 1..3 and exactly k arguments per invocation, or -I), delivered to the rec recorder through its script; fatal outcomes at every position, also after earlier ordinary failures; command kinds: rec (1 in 5 named bare and found through a PATH whose first directories hold a non-executable file of that name, a directory of that name, or do not exist), a missing name (bare and with a path), a non-executable file, a directory, an executable-bit file that is not an executable image (junk / empty); input modes default/-0/-d. Exhaustive sub-run: every outcome sequence of length <= 4 over the six outcome classes {0, 1, 125, 255, SIGTERM, SIGKILL}. own-errors: a table of usage and input errors (bad -n/-L/-s/-P/-d values, unknown option, -s smaller than the command, -s too small for one argument, unterminated quotes, missing -a file) each preceded by 0-3 successful or failing invocations where the error is raised lazily. Oracle: the exit-status automaton from the statement (0; 123 sticky after any exit 1..125; stop at first 255 -> 124, signal -> 125, cannot run -> 126, not found -> 127; own errors -> 1) compared with the xargs binary's status; the recorder's invocation count must equal the index of the stopping outcome + 1 (or all). Non-trivial = the sequence has an ordinary failure before a fatal outcome, or a fatal outcome that is not last, or (own-errors) the error follows at least one invocation. Distinct = distinct case JSON.",
    assumptions: &[
        "child exit codes 126-254 are not generated (the statement does not fix them)",
        "an own error raised while reading input (unterminated quote, oversized argument) after a child already exited 255 / died is governed by the earlier fatal outcome (xargs stops at once)",
        "rec kills itself with the scripted signal after resetting its disposition; SIGKILL/SIGTERM/SIGUSR1/SIGINT/SIGSEGV cover catchable, uncatchable and core-dumping signals",
    ],
    run,
    replay,
    fuzz: None,
};

#[derive(Serialize, Deserialize, Debug, Clone, PartialEq, Eq)]
pub enum Oc {
    Exit(u8),
    Sig(i32),
}

#[derive(Serialize, Deserialize, Debug, Clone)]
pub struct Case {
    pub outcomes: Vec<Oc>,
    /// arguments per invocation
    pub k: usize,
    /// 0: -n k, 1: -L k, 2: -I {} (k forced to 1)
    pub batch: u8,
    /// 0 rec, 1 missing bare name, 2 missing with path, 3 non-executable file, 4 directory,
    /// 5 executable-bit file that is not an executable image (ENOEXEC), 6 empty executable-bit file
    pub cmd: u8,
    /// 0 default, 1 -0, 2 -d ','
    pub mode: u8,
    pub no_run_if_empty: bool,
    /// outcome of the single argument-less invocation that empty input causes (without -r)
    #[serde(default = "ok_outcome")]
    pub bare: Oc,
    /// xargs' stderr is /dev/full: its diagnostics cannot be written, the exit status must not change
    #[serde(default)]
    pub stderr_full: bool,
    /// xargs is started with SIGCHLD ignored
    #[serde(default)]
    pub sigchld_ignored: bool,
    /// with cmd 0: the recorder is named bare ("rec") and found through PATH, where directories
    /// that come first hold 1 a regular file of that name without execute permission, 2 a directory
    /// of that name, 3 nothing (one of them does not exist) - the search passes over all of these
    /// (execvp), so the command is found and can be executed: the outcomes decide the status
    #[serde(default)]
    pub path_lookup: u8,
}

fn ok_outcome() -> Oc {
    Oc::Exit(0)
}

fn gen_outcome(g: &mut Gen) -> Oc {
    match g.weighted(&[8, 6, 2, 2]) {
        0 => Oc::Exit(0),
        1 => Oc::Exit(g.pick(&[1u8, 1, 2, 3, 42, 100, 123, 124, 125])),
        2 => Oc::Exit(255),
        _ => Oc::Sig(g.pick(&[libc::SIGTERM, libc::SIGKILL, libc::SIGUSR1, libc::SIGINT, libc::SIGSEGV])),
    }
}

pub fn gen_case(g: &mut Gen) -> Case {
    let n = if g.chance(1, 10) { 0 } else { g.usize_in(1, 30) };
    let mut outcomes: Vec<Oc> = (0..n).map(|_| gen_outcome(g)).collect();
    // make sure fatal outcomes appear at chosen positions often enough
    if n > 0 && g.chance(1, 2) {
        let pos = g.usize_in(0, n - 1);
        outcomes[pos] = if g.bool() { Oc::Exit(255) } else { Oc::Sig(g.pick(&[libc::SIGTERM, libc::SIGKILL, libc::SIGUSR1])) };
        if pos > 0 && g.chance(2, 3) {
            let q = g.usize_in(0, pos - 1);
            outcomes[q] = Oc::Exit(g.pick(&[1u8, 7, 125]));
        }
    }
    let batch = g.weighted(&[5, 3, 2]) as u8;
    let k = if batch == 2 { 1 } else { g.usize_in(1, 3) };
    Case { outcomes, k, batch, cmd: g.weighted(&[14, 1, 1, 1, 1, 1, 1]) as u8, mode: g.weighted(&[5, 2, 1]) as u8, no_run_if_empty: g.chance(1, 3), bare: gen_outcome(g), stderr_full: g.chance(1, 6), sigchld_ignored: g.chance(1, 6), path_lookup: if g.chance(1, 5) { g.usize_in(1, 3) as u8 } else { 0 } }
}

pub fn script_of(o: &[Oc]) -> String {
    o.iter()
        .map(|x| match x {
            Oc::Exit(c) => c.to_string(),
            Oc::Sig(s) => format!("s{s}"),
        })
        .collect::<Vec<_>>()
        .join(",")
}

/// (expected exit status, expected number of started invocations)
pub fn automaton(o: &[Oc]) -> (i32, usize) {
    let mut failed = false;
    for (i, x) in o.iter().enumerate() {
        match x {
            Oc::Exit(0) => {}
            Oc::Exit(255) => return (124, i + 1),
            Oc::Exit(_) => failed = true,
            Oc::Sig(_) => return (125, i + 1),
        }
    }
    (if failed { 123 } else { 0 }, o.len())
}

fn nontrivial(o: &[Oc]) -> bool {
    let fatal = o.iter().position(|x| matches!(x, Oc::Exit(255) | Oc::Sig(_)));
    match fatal {
        Some(p) => p + 1 < o.len() || o[..p].iter().any(|x| matches!(x, Oc::Exit(c) if *c != 0)),
        None => false,
    }
}

pub fn check(ctx: &mut Ctx, c: &Case) -> Outcome {
    let d = ctx.fresh_case_dir();
    let sep: &[u8] = match c.mode {
        0 => b"\n",
        1 => b"\0",
        _ => b",",
    };
    let mut input = Vec::new();
    let nargs = c.outcomes.len() * c.k;
    for i in 0..nargs {
        input.extend_from_slice(format!("a{i}").as_bytes());
        // within an invocation's group, -L needs one line per argument (hard terminated), -n may share lines
        let last_of_group = (i + 1) % c.k == 0;
        if c.mode == 0 && c.batch == 0 && !last_of_group {
            input.push(b' ');
        } else {
            input.extend_from_slice(sep);
        }
    }
    let mut opts: Vec<OsString> = vec![];
    match c.batch {
        0 => {
            opts.push("-n".into());
            opts.push(c.k.to_string().into());
        }
        1 => {
            opts.push("-L".into());
            opts.push(c.k.to_string().into());
        }
        _ => {
            opts.push("-I".into());
            opts.push("{}".into());
        }
    }
    match c.mode {
        1 => opts.push("-0".into()),
        2 => {
            opts.push("-d".into());
            opts.push(",".into());
        }
        _ => {}
    }
    if c.no_run_if_empty {
        opts.push("-r".into());
    }
    let mut extra_env: Vec<(OsString, OsString)> = vec![];
    if c.cmd == 0 && c.path_lookup > 0 {
        let abs = ctx.root.join(d);
        let p1 = abs.join("p1");
        std::fs::create_dir(&p1).unwrap();
        match c.path_lookup {
            1 => std::fs::write(p1.join("rec"), b"#!/bin/sh\nexit 9\n").unwrap(),
            2 => std::fs::create_dir(p1.join("rec")).unwrap(),
            _ => {}
        }
        let real = crate::engine::proc::safe_path_dir();
        let mut path = OsString::from(abs.join("absent"));
        path.push(":");
        path.push(&p1);
        path.push(":");
        path.push(&real);
        extra_env.push(("PATH".into(), path));
    }
    let cmd0: OsString = match c.cmd {
        0 if c.path_lookup > 0 => "rec".into(),
        0 => rec_path(),
        1 => "no-such-command-xyz".into(),
        2 => format!("{d}/missing/cmd").into(),
        3 => {
            std::fs::write(format!("{d}/plain"), b"#!/bin/sh\nexit 0\n").unwrap();
            format!("{d}/plain").into()
        }
        4 => {
            std::fs::create_dir(format!("{d}/dir")).unwrap();
            format!("{d}/dir").into()
        }
        k => {
            use std::os::unix::fs::PermissionsExt;
            let p = format!("{d}/blob");
            std::fs::write(&p, if k == 5 { &b"\x01\x02junk, not an executable image\n"[..] } else { &b""[..] }).unwrap();
            std::fs::set_permissions(&p, std::fs::Permissions::from_mode(0o755)).unwrap();
            p.into()
        }
    };
    let mut cmd = vec![cmd0];
    if c.batch == 2 {
        cmd.push("x{}y".into());
    }
    // the model
    let runs_at_all = !c.outcomes.is_empty() || (!c.no_run_if_empty && c.batch != 2);
    let (want_status, want_started, started_known) = if c.cmd == 0 {
        if c.outcomes.is_empty() {
            if runs_at_all {
                let (s, n) = automaton(std::slice::from_ref(&c.bare));
                (s, n, true)
            } else {
                (0, 0, true)
            }
        } else {
            let (s, n) = automaton(&c.outcomes);
            (s, n, true)
        }
    } else if !runs_at_all {
        (0, 0, true)
    } else {
        (if c.cmd <= 2 { 127 } else { 126 }, 0, true)
    };
    // -I with empty input runs nothing (C20) - not asserted here beyond the status
    let script = if c.outcomes.is_empty() { script_of(std::slice::from_ref(&c.bare)) } else { script_of(&c.outcomes) };
    let run = run_xargs(ctx, &opts, &cmd, &input, &script, BinOpts { clear_env: true, env: extra_env, stderr_sink: c.stderr_full as u8, ignore_sigchld: c.sigchld_ignored, ..Default::default() });
    let kind = match c.cmd {
        0 if c.path_lookup > 0 => ["", "rec-behind-a-non-executable-file-on-PATH", "rec-behind-a-directory-on-PATH", "rec-behind-empty-and-absent-PATH-directories"][c.path_lookup as usize],
        0 => "rec",
        1 | 2 => "missing-command",
        _ => "non-executable",
    };
    let desc = || format!("xargs {} {:?}\ninput {:?}\noutcomes {:?}\nexpected status {want_status}, {want_started} invocation(s)\nobserved status {:?} signal {:?}, {} invocation(s)\nstderr {:?}", opts.iter().map(|o| o.to_string_lossy().into_owned()).collect::<Vec<_>>().join(" "), cmd, lossy(&input), c.outcomes, run.out.code, run.out.signal, run.records.len(), lossy(&run.out.stderr));
    if !run.out.ordinary() {
        return fail(format!("C19:abnormal-termination:{kind}"), desc());
    }
    if run.out.code != Some(want_status) {
        return fail(format!("C19:status-{}-expected-{want_status}:{kind}", run.out.code.unwrap_or(-1)), desc());
    }
    if started_known && run.records.len() != want_started {
        let rel = if run.records.len() > want_started { "continued-after-fatal-outcome" } else { "stopped-early" };
        return fail(format!("C19:{rel}:expected-{want_status}:{kind}"), desc());
    }
    Pass::new(c.cmd == 0 && nontrivial(&c.outcomes))
        .class_if(want_status == 123, "status-123")
        .class_if(want_status == 124, "status-124")
        .class_if(want_status == 125, "status-125")
        .class_if(want_status == 126, "status-126")
        .class_if(want_status == 127, "status-127")
        .class_if(want_status == 0, "status-0")
        .class_if(c.outcomes.is_empty(), "empty-input")
        .class_if(c.outcomes.is_empty() && runs_at_all && c.bare != Oc::Exit(0), "empty-input-invocation-fails")
        .class_if(c.batch == 2, "replace-mode")
        .class_if(c.stderr_full, "stderr-cannot-be-written")
        .class_if(c.sigchld_ignored, "started-with-SIGCHLD-ignored")
        .class_if(c.cmd == 0 && c.path_lookup > 0, "command-found-through-PATH-behind-unusable-candidates")
        .sample(json!({"cmdline": format!("xargs {} {}", opts.iter().map(|o| o.to_string_lossy().into_owned()).collect::<Vec<_>>().join(" "), kind), "script": script_of(&c.outcomes), "status": want_status, "invocations": want_started}))
        .ok()
}

// ---------------------------------------------------------------------------
// own errors
// ---------------------------------------------------------------------------

#[derive(Serialize, Deserialize, Debug, Clone)]
pub struct ErrCase {
    /// index into ERRORS
    pub which: usize,
    /// outcomes of the invocations that run before the error is raised (lazy errors only)
    pub before: Vec<Oc>,
}

struct ErrSpec {
    name: &'static str,
    opts: &'static [&'static str],
    /// text appended to the input after the `before` lines
    tail: &'static str,
    /// the error is only raised when the reader reaches the tail (earlier invocations run first)
    lazy: bool,
}

/// Input that no command can be given (an argument holding a NUL byte): the statement leaves open
/// whether that is an input error (status 1) or is coped with (the argument cut short, status by
/// the invocations) - but the command can be executed and was found, so 126 and 127 are wrong.
const NUL_INPUTS: &[(&[&str], &[u8])] = &[(&["-n", "1"], b"a\0b\nc\n"), (&["-d", ",", "-n", "1"], b"a,b\0c"), (&["-L", "1"], b"x\ny\0\n"), (&[], b"\0")];

const ERRORS: &[ErrSpec] = &[
    ErrSpec { name: "-n 0", opts: &["-n", "0"], tail: "", lazy: false },
    ErrSpec { name: "-n x", opts: &["-n", "x"], tail: "", lazy: false },
    ErrSpec { name: "-n -1", opts: &["-n", "-1"], tail: "", lazy: false },
    ErrSpec { name: "-n empty", opts: &["-n", ""], tail: "", lazy: false },
    ErrSpec { name: "-n huge", opts: &["-n", "99999999999999999999999"], tail: "", lazy: false },
    ErrSpec { name: "-L 0", opts: &["-L", "0"], tail: "", lazy: false },
    ErrSpec { name: "-L x", opts: &["-L", "1x"], tail: "", lazy: false },
    ErrSpec { name: "-s 0", opts: &["-s", "0"], tail: "", lazy: false },
    ErrSpec { name: "-s x", opts: &["-s", "ten"], tail: "", lazy: false },
    ErrSpec { name: "-s smaller than command", opts: &["-s", "5"], tail: "", lazy: false },
    ErrSpec { name: "-P x", opts: &["-P", "x"], tail: "", lazy: false },
    ErrSpec { name: "-d ab", opts: &["-d", "ab"], tail: "", lazy: false },
    ErrSpec { name: "-d empty", opts: &["-d", ""], tail: "", lazy: false },
    ErrSpec { name: "-d bad escape", opts: &["-d", "\\q"], tail: "", lazy: false },
    ErrSpec { name: "-d bad hex", opts: &["-d", "\\xZZ"], tail: "", lazy: false },
    ErrSpec { name: "unknown option", opts: &["--no-such-option"], tail: "", lazy: false },
    ErrSpec { name: "option value that is not valid UTF-8", opts: &["-I", "RAW-BYTES"], tail: "", lazy: false },
    ErrSpec { name: "-a missing file", opts: &["-a", "c/does-not-exist"], tail: "", lazy: false },
    ErrSpec { name: "unterminated single quote", opts: &["-n", "1"], tail: "'abc def\n", lazy: true },
    ErrSpec { name: "unterminated double quote", opts: &["-n", "1"], tail: "x \"abc\n", lazy: true },
    ErrSpec { name: "unterminated quote at end", opts: &["-L", "1"], tail: "ok'", lazy: true },
    ErrSpec { name: "argument too long for -s", opts: &["-n", "1", "-s", "SIZE"], tail: "LONG\n", lazy: true },
    ErrSpec { name: "argument too long for -s with -x", opts: &["-n", "2", "-x", "-s", "SIZE"], tail: "LONG\n", lazy: true },
];

fn gen_err(g: &mut Gen) -> ErrCase {
    let which = g.below(ERRORS.len() as u64) as usize;
    let before = if ERRORS[which].lazy { g.vec_of(0, 3, |g| gen_outcome(g)) } else { vec![] };
    ErrCase { which, before }
}

fn check_err(ctx: &mut Ctx, c: &ErrCase) -> Outcome {
    ctx.fresh_case_dir();
    let rec = rec_path();
    if c.which >= ERRORS.len() {
        let (o, input) = NUL_INPUTS[(c.which - ERRORS.len()) % NUL_INPUTS.len()];
        let opts: Vec<OsString> = o.iter().map(OsString::from).collect();
        let run = run_xargs(ctx, &opts, &[rec.clone()], input, "", BinOpts { clear_env: true, ..Default::default() });
        let desc = format!("xargs {opts:?} rec\ninput {:?}\nobserved status {:?} signal {:?}, {} invocation(s)\nstderr {:?}", lossy(input), run.out.code, run.out.signal, run.records.len(), lossy(&run.out.stderr));
        if !run.out.ordinary() {
            return fail("C19:own-error:abnormal-termination:NUL byte in input", desc);
        }
        return match run.out.code {
            Some(0) => Pass::new(true).class("NUL-byte-in-input:coped-with").ok(),
            Some(1) if !run.out.stderr.is_empty() => Pass::new(true).class("NUL-byte-in-input:input-error").ok(),
            other => fail(format!("C19:own-error:status-{}-for-NUL-byte-in-input", other.unwrap_or(-1)), desc),
        };
    }
    let spec = &ERRORS[c.which % ERRORS.len()];
    // -s SIZE: room for the command and a short argument, not for LONG
    let size = rec.len() + 1 + 12;
    let long = "L".repeat(40);
    let opts: Vec<OsString> = spec
        .opts
        .iter()
        .map(|o| {
            if *o == "SIZE" {
                size.to_string().into()
            } else if *o == "RAW-BYTES" {
                use std::os::unix::ffi::OsStringExt;
                OsString::from_vec(vec![b'{', 0xff, b'}'])
            } else {
                OsString::from(*o)
            }
        })
        .collect();
    let mut input = String::new();
    let two_per = spec.opts.contains(&"2");
    for i in 0..c.before.len() {
        input.push_str(&format!("b{i}\n"));
        if two_per {
            input.push_str(&format!("c{i}\n"));
        }
    }
    input.push_str(&spec.tail.replace("LONG", &long));
    let run = run_xargs(ctx, &opts, &[rec.clone()], input.as_bytes(), &script_of(&c.before), BinOpts { clear_env: true, ..Default::default() });
    // The statement fixes the status, not whether the invocation that was still being
    // assembled when the error was met is run: judge by the invocations actually started.
    let m = run.records.len();
    let desc = || format!("xargs {:?} rec   [{}]\ninput {:?}\nearlier outcomes {:?}\nobserved status {:?} signal {:?}, {} invocation(s)\nstderr {:?}", opts, spec.name, input, c.before, run.out.code, run.out.signal, m, lossy(&run.out.stderr));
    if !run.out.ordinary() {
        return fail(format!("C19:own-error:abnormal-termination:{}", spec.name), desc());
    }
    if m > c.before.len() || (!spec.lazy && m != 0) {
        return fail(format!("C19:own-error:ran-after-error:{}", spec.name), desc());
    }
    let (s, n) = automaton(&c.before[..m]);
    let want = if s == 124 || s == 125 {
        if n != m {
            return fail(format!("C19:own-error:continued-after-fatal-outcome:{}", spec.name), desc());
        }
        s
    } else {
        1
    };
    if run.out.code != Some(want) {
        return fail(format!("C19:own-error:status-{}-expected-{want}:{}", run.out.code.unwrap_or(-1), spec.name), desc());
    }
    if run.out.stderr.is_empty() {
        return fail(format!("C19:own-error:no-diagnostic:{}", spec.name), desc());
    }
    // an oversized argument is only met after the earlier invocations were dispatched
    if spec.tail == "LONG\n" && !two_per && want == 1 && m != c.before.len() {
        return fail(format!("C19:own-error:invocation-count:{}", spec.name), desc());
    }
    Pass::new(!c.before.is_empty())
        .class_if(spec.lazy, "own-error-raised-while-reading")
        .class_if(!spec.lazy, "own-error-in-options")
        .sample(json!({"error": spec.name, "opts": spec.opts, "input": input, "earlier": script_of(&c.before)}))
        .ok()
}

fn run(w: &mut Worker) {
    w.regress::<Case>("outcomes", check);
    w.regress::<ErrCase>("own-errors", check_err);
    // exhaustive over short sequences of outcome classes
    let classes = [Oc::Exit(0), Oc::Exit(1), Oc::Exit(125), Oc::Exit(255), Oc::Sig(libc::SIGTERM), Oc::Sig(libc::SIGKILL)];
    let maxlen = w.tier.pick(4usize, 5);
    let mut all: Vec<Case> = vec![];
    for len in 0..=maxlen {
        let total = classes.len().pow(len as u32);
        for mut idx in 0..total {
            let mut o = vec![];
            for _ in 0..len {
                o.push(classes[idx % classes.len()].clone());
                idx /= classes.len();
            }
            all.push(Case { outcomes: o, k: 1, batch: (all.len() % 2) as u8, cmd: 0, mode: 0, no_run_if_empty: false, bare: classes[all.len() % classes.len()].clone(), stderr_full: all.len() % 5 == 4, sigchld_ignored: all.len() % 7 == 6, path_lookup: 0 });
        }
    }
    w.exhaustive("outcomes-short", &format!("all outcome sequences of length <= {maxlen} over 6 outcome classes"), all.into_iter(), check);
    w.exhaustive("own-errors-table", "every entry of the own-error table with no earlier invocation", (0..ERRORS.len() + NUL_INPUTS.len()).map(|which| ErrCase { which, before: vec![] }), check_err);
    w.random("outcomes", w.tier.pick(2_500, 40_000), (20, 120), 300, gen_case, check);
    w.random("own-errors", w.tier.pick(600, 8_000), (4, 16), 100, gen_err, check_err);
}

fn replay(w: &mut Worker, sub: &str, v: Value) -> Outcome {
    if sub.starts_with("own-errors") {
        check_err(&mut w.ctx, &decode(v))
    } else {
        check(&mut w.ctx, &decode(v))
    }
}
