//! C02 — traversal: every in-range entry visited exactly once under -P/-H/-L.

use super::{decode, PropDef};
use crate::engine::fsx::{gen_tree, gen_tree_with, ref_walk, Act, Ev, FollowMode, Kind, Node, TreeParams, TreeSpec, WalkOpts};
use crate::engine::proc::{find_bin, lossy, BinOpts, Ctx};
use crate::engine::{fail, Gen, Outcome, Pass, Worker};
use serde::{Deserialize, Serialize};
use serde_json::{json, Value};

pub static DEF: PropDef = PropDef {
    id: "C02",
    rule: "random: trees (<=40 nodes, depth<=5) with files, directories, links to files/directories (inside and outside the starting point), dangling, ancestor (cycle) and self-referential links x follow mode (-P,-H,-L,-follow) x mindepth,maxdepth in {absent,0..6} independently (mindepth>maxdepth included) x -depth x 1-3 starting points (directories, files, links, dangling links, missing names) x with/without -sorted; plus trees with mode-000/111 directories walked by the find binary as uid 65534. Oracle: independent walker (read_dir/lstat/stat, cycle detection on the (dev,ino) ancestor chain); -print0 output compared as a sequence (-sorted) or multiset; loop/unreadable/missing => diagnostic and non-zero exit, siblings and later starting points still present. Non-trivial = the tree has a link to a directory AND (the depth bounds cut at least one entry, or a cycle/dangling link is present, or a starting point fails). Distinct = distinct case JSON.",
    assumptions: &[
        "left open (statement silent): whether the cycle-closing link itself, a self-referential (ELOOP) link under a following mode, or an unreadable directory's own name is printed; ELOOP links may or may not set the exit status",
        "unreadable entries are produced by running the built find binary as uid 65534 on root-owned mode-000/111 directories (the harness itself runs as root)",
    ],
    run,
    replay,
    fuzz: None,
};

#[derive(Serialize, Deserialize, Debug, Clone)]
pub struct Case {
    pub tree: TreeSpec,
    pub roots: Vec<String>,
    /// 0 -P, 1 -H, 2 -L, 3 "-follow" in the expression, 4 no flag (default = -P)
    pub follow: u8,
    pub mindepth: Option<usize>,
    pub maxdepth: Option<usize>,
    pub depth: bool,
    pub sorted: bool,
    pub min_before_max: bool,
}

pub fn gen_case(g: &mut Gen) -> Case {
    let outside = gen_tree(g, "c/o", &TreeParams { max_nodes: 4, max_depth: 2, cyclic_links: false, ..Default::default() });
    let extra: Vec<String> = outside.nodes.iter().map(|n| n.path.clone()).collect();
    let params = TreeParams { max_nodes: 36, max_depth: 5, kind_w: [6, 5, 5, 0, 0, 0], ..Default::default() };
    let mut tree = gen_tree_with(g, "c/r", &params, &extra);
    let mut nodes = outside.nodes;
    nodes.append(&mut tree.nodes);
    // extra starting points
    nodes.push(Node::new("c/file", Kind::File));
    nodes.push(Node::new("c/rl", Kind::Link("r".into())));
    nodes.push(Node::new("c/fl", Kind::Link("file".into())));
    nodes.push(Node::new("c/dl", Kind::Link("nowhere".into())));
    nodes.push(Node::new("c/ol", Kind::Link("o".into())));
    let nroots = g.weighted(&[6, 3, 2]) + 1;
    let mut roots = vec![];
    for i in 0..nroots {
        let r = if i == 0 && g.chance(2, 3) { "c/r".to_string() } else { g.pick(&["c/r", "c/rl", "c/file", "c/fl", "c/dl", "c/missing", "c/o", "c/ol", "c/r/"]).to_string() };
        roots.push(r);
    }
    let md = |g: &mut Gen| if g.chance(1, 2) { Some(g.usize_in(0, 6)) } else { None };
    Case { tree: TreeSpec { nodes }, roots, follow: g.weighted(&[3, 3, 4, 2, 1]) as u8, mindepth: md(g), maxdepth: md(g), depth: g.chance(1, 3), sorted: g.chance(2, 3), min_before_max: g.bool() }
}

fn follow_mode(c: u8) -> FollowMode {
    match c {
        1 => FollowMode::H,
        2 | 3 => FollowMode::L,
        _ => FollowMode::P,
    }
}

struct Expect {
    must: Vec<String>,
    /// entries the statement leaves open (ELOOP links under a following mode)
    may: Vec<String>,
    must_fail: bool,
    may_fail: bool,
    events: Vec<Ev>,
}

fn expectation(roots: &[String], wo: &WalkOpts) -> Expect {
    let mut ex = Expect { must: vec![], may: vec![], must_fail: false, may_fail: false, events: vec![] };
    for r in roots {
        let mut events = vec![];
        let mut must = vec![];
        let mut may = vec![];
        ref_walk(r, wo, &mut |e| {
            if e.follows && e.is_link() && e.smeta.is_none() && e.stat_errno == Some(libc::ELOOP) {
                may.push(e.path.clone());
            } else {
                must.push(e.path.clone());
            }
            Act::Continue
        }, &mut events);
        // ELOOP links below min_depth are still encountered: open too
        if !events.is_empty() {
            ex.must_fail = true;
        }
        ex.must.extend(must);
        ex.may.extend(may);
        ex.events.extend(events);
    }
    ex
}

fn eloop_present(tree: &TreeSpec) -> bool {
    tree.nodes.iter().any(|n| matches!(&n.kind, Kind::Link(t) if t == n.name()))
}

fn compare(c_desc: &str, ex: &Expect, sorted: bool, stdout: &[u8], stderr: &[u8], status: i32, sig_ctx: &str) -> Option<Outcome> {
    let mut got: Vec<String> = stdout.split(|b| *b == 0).map(|s| lossy(s)).collect();
    if got.last().map_or(false, |s| s.is_empty()) {
        got.pop();
    }
    // remove the optional entries from the observed list, then compare
    let mut rest: Vec<String> = vec![];
    let mut may_left = ex.may.clone();
    for p in &got {
        if let Some(i) = may_left.iter().position(|m| m == p) {
            if !ex.must.contains(p) {
                may_left.remove(i);
                continue;
            }
        }
        rest.push(p.clone());
    }
    let detail = || format!("{c_desc}\nexpected (must): {:?}\noptional: {:?}\nobserved: {:?}\nexit {status}, stderr {:?}\nreference events: {:?}", ex.must, ex.may, got, lossy(stderr), ex.events);
    // the property is about WHICH entries are visited (each exactly once); order is C03's subject
    let _ = sorted;
    let ok = {
        let mut a = rest.clone();
        let mut b = ex.must.clone();
        a.sort();
        b.sort();
        a == b
    };
    if !ok {
        let mut a = rest.clone();
        let mut b = ex.must.clone();
        a.sort();
        b.sort();
        let kind = if a == b {
            "order"
        } else if a.len() > b.len() || a.iter().any(|p| !b.contains(p)) {
            if a.windows(2).any(|w| w[0] == w[1]) && !b.windows(2).any(|w| w[0] == w[1]) {
                "entry-repeated"
            } else {
                "extra-entry"
            }
        } else {
            "entry-missing"
        };
        if sig_ctx.starts_with("-H:-depth:") {
            return Some(fail(format!("C02:{sig_ctx}"), detail()));
        }
        return Some(fail(format!("C02:{kind}:{sig_ctx}"), detail()));
    }
    if ex.must_fail {
        if status == 0 {
            return Some(fail(format!("C02:error-but-exit-0:{sig_ctx}"), detail()));
        }
        if stderr.is_empty() {
            return Some(fail(format!("C02:error-without-diagnostic:{sig_ctx}"), detail()));
        }
    } else if status != 0 && !ex.may_fail {
        return Some(fail(format!("C02:nonzero-exit-without-cause:{sig_ctx}"), detail()));
    }
    None
}

pub fn check(ctx: &mut Ctx, c: &Case) -> Outcome {
    ctx.fresh_case_dir();
    c.tree.build();
    let fm = follow_mode(c.follow);
    let wo = WalkOpts { follow: fm, depth_first: c.depth, min_depth: c.mindepth.unwrap_or(0), max_depth: c.maxdepth.unwrap_or(usize::MAX), as_other: false };
    let mut ex = expectation(&c.roots, &wo);
    ex.may_fail = !ex.may.is_empty() || (fm != FollowMode::P && eloop_present(&c.tree));
    let mut args: Vec<String> = vec![];
    match c.follow {
        0 => args.push("-P".into()),
        1 => args.push("-H".into()),
        2 => args.push("-L".into()),
        _ => {}
    }
    args.extend(c.roots.iter().cloned());
    if c.follow == 3 {
        args.push("-follow".into());
    }
    let push_min = |a: &mut Vec<String>| {
        if let Some(m) = c.mindepth {
            a.push("-mindepth".into());
            a.push(m.to_string());
        }
    };
    let push_max = |a: &mut Vec<String>| {
        if let Some(m) = c.maxdepth {
            a.push("-maxdepth".into());
            a.push(m.to_string());
        }
    };
    if c.min_before_max {
        push_min(&mut args);
        push_max(&mut args);
    } else {
        push_max(&mut args);
        push_min(&mut args);
    }
    if c.depth {
        args.push("-depth".into());
    }
    if c.sorted {
        args.push("-sorted".into());
    }
    args.push("-print0".into());
    let argv: Vec<&str> = args.iter().map(|s| s.as_str()).collect();
    let out = ctx.find(&argv);
    let desc = format!("find {}", args.iter().map(|a| format!("{a:?}")).collect::<Vec<_>>().join(" "));
    if let Some(p) = out.panic {
        return fail(format!("C02:panic:{}", p.split(": ").next().unwrap_or("?")), format!("{desc}\npanic: {p}"));
    }
    let bounds = match (c.mindepth, c.maxdepth) {
        (Some(a), Some(b)) if a > b => "min>max",
        (Some(_), _) | (_, Some(_)) => "bounded",
        _ => "unbounded",
    };
    let has_loop = ex.events.iter().any(|e| matches!(e, Ev::Loop(_)));
    let has_missing = ex.events.iter().any(|e| matches!(e, Ev::Error(_)));
    let dangling = c.tree.nodes.iter().any(|n| matches!(&n.kind, Kind::Link(t) if t == "nowhere") && (n.path.starts_with("c/r/") || c.roots.contains(&n.path)));
    let root_link_to_dir = c.roots.iter().any(|r| std::fs::symlink_metadata(r).map(|m| m.file_type().is_symlink()).unwrap_or(false) && std::fs::metadata(r).map(|m| m.is_dir()).unwrap_or(false));
    let sig_ctx = if fm == FollowMode::H && c.depth && root_link_to_dir {
        // walkdir's contents_first bookkeeping breaks for a followed root symlink (see known_findings.json)
        "-H:-depth:starting-point-is-link-to-directory".to_string()
    } else {
        format!("{}:{}{}{}", fm.flag(), bounds, if has_loop { ":loop" } else { "" }, if c.depth { ":depth" } else { "" })
    };
    if let Some(f) = compare(&desc, &ex, c.sorted, &out.stdout, &out.stderr, out.status, &sig_ctx) {
        return f;
    }
    // how many entries did the bounds cut?
    let unbounded = WalkOpts { follow: fm, depth_first: c.depth, min_depth: 0, max_depth: usize::MAX, as_other: false };
    let all = expectation(&c.roots, &unbounded);
    let cut = all.must.len() > ex.must.len();
    let link_to_dir = c.tree.has_link_to_dir();
    let nontrivial = link_to_dir && (cut || has_loop || dangling || has_missing);
    Pass::new(nontrivial)
        .class(match fm {
            FollowMode::P => "follow-P",
            FollowMode::H => "follow-H",
            FollowMode::L => "follow-L",
        })
        .class_if(c.follow == 3, "-follow-option")
        .class_if(bounds == "min>max", "mindepth>maxdepth")
        .class_if(cut, "bounds-cut-entries")
        .class_if(has_loop, "cycle-link-diagnosed")
        .class_if(has_missing, "failing-starting-point")
        .class_if(dangling, "dangling-link")
        .class_if(!ex.may.is_empty(), "eloop-link")
        .class_if(c.roots.len() > 1, "several-starting-points")
        .class_if(c.depth, "depth-first")
        .sample(json!({"cmdline": desc, "entries": ex.must.len(), "events": ex.events.len()}))
        .ok()
}

// ---- unreadable directories, find binary as uid 65534 -----------------------------

#[derive(Serialize, Deserialize, Debug, Clone)]
pub struct UCase {
    pub tree: TreeSpec,
    pub roots: Vec<String>,
    pub depth: bool,
}

pub fn gen_ucase(g: &mut Gen) -> UCase {
    let params = TreeParams { max_nodes: 25, max_depth: 4, kind_w: [6, 5, 1, 0, 0, 0], cyclic_links: false, ..Default::default() };
    let mut tree = gen_tree(g, "c/r", &params);
    let t2 = gen_tree(g, "c/s", &TreeParams { max_nodes: 5, max_depth: 2, kind_w: [3, 5, 0, 0, 0, 0], ..Default::default() });
    tree.nodes.extend(t2.nodes);
    // make some directories (not the roots) unreadable
    let idx: Vec<usize> = tree.nodes.iter().enumerate().filter(|(_, n)| n.kind == Kind::Dir && n.path != "c/r" && n.path != "c/s").map(|(i, _)| i).collect();
    let mut any = false;
    for i in idx {
        if g.chance(1, 3) {
            tree.nodes[i].mode = Some(g.pick(&[0o000u32, 0o111, 0o700]));
            any = true;
        }
    }
    if !any {
        tree.nodes.push(Node { mode: Some(0), ..Node::new("c/r/locked", Kind::Dir) });
        tree.nodes.push(Node::new("c/r/locked/inside", Kind::File));
        tree.nodes.push(Node::new("c/r/zz-after", Kind::File));
    }
    let roots = if g.chance(1, 2) { vec!["c/r".to_string(), "c/s".to_string()] } else { vec!["c/r".to_string()] };
    UCase { tree, roots, depth: g.chance(1, 3) }
}

pub fn check_u(ctx: &mut Ctx, c: &UCase) -> Outcome {
    ctx.fresh_case_dir();
    // children of a to-be-locked directory must be created before the mode is applied: build() does modes last
    c.tree.build();
    let wo = WalkOpts { follow: FollowMode::P, depth_first: c.depth, min_depth: 0, max_depth: usize::MAX, as_other: true };
    let ex = expectation(&c.roots, &wo);
    let mut args: Vec<String> = c.roots.clone();
    if c.depth {
        args.push("-depth".into());
    }
    args.push("-sorted".into());
    args.push("-print0".into());
    let o = ctx.run_bin(&find_bin(), &args, &BinOpts { uid: Some(65534), ..Default::default() });
    let desc = format!("(uid 65534) find {}", args.join(" "));
    if !o.ordinary() {
        return fail("C02:abnormal-termination-unreadable", format!("{desc}: code {:?} signal {:?} stderr {:?}", o.code, o.signal, lossy(&o.stderr)));
    }
    // the unreadable directory's own name is optional: move such paths from must to may
    let mut ex = ex;
    let locked: Vec<String> = ex.events.iter().filter_map(|e| if let Ev::Error(p) = e { Some(p.clone()) } else { None }).collect();
    ex.must.retain(|p| !locked.contains(p));
    ex.may.extend(locked.iter().cloned());
    if let Some(f) = compare(&desc, &ex, true, &o.stdout, &o.stderr, o.code.unwrap_or(-1), "unreadable-directory") {
        return f;
    }
    let nontrivial = !locked.is_empty();
    Pass::new(nontrivial).class_if(c.roots.len() > 1, "several-starting-points").class("unprivileged-binary").sample(json!({"cmdline": desc, "unreadable": locked})).ok()
}

fn run(w: &mut Worker) {
    w.regress::<Case>("walk", check);
    w.regress::<UCase>("unreadable", check_u);
    w.random("walk", w.tier.pick(100_000, 1_500_000), (60, 500), 1500, gen_case, check);
    w.random("unreadable", w.tier.pick(1_000, 10_000), (40, 300), 300, gen_ucase, check_u);
}

fn replay(w: &mut Worker, sub: &str, v: Value) -> Outcome {
    match sub {
        "unreadable" => check_u(&mut w.ctx, &decode(v)),
        _ => check(&mut w.ctx, &decode(v)),
    }
}
