//! C04 — xargs batching: order-preserving, lossless, within -n/-L/-s, maximal.

use super::{decode, PropDef};
use crate::engine::proc::{lossy, BinOpts, Ctx};
use crate::engine::xa::{rec_path, run_xargs};
use crate::engine::{fail, Gen, Outcome, Pass, Worker};
use serde::{Deserialize, Serialize};
use serde_json::{json, Value};
use std::ffi::OsString;
use std::os::unix::ffi::OsStrExt;

pub static DEF: PropDef = PropDef {
    id: "C04",
    rule: "random: argument lists (0-40 args, 1-60 bytes incl. multi-byte, some sized to hit the -s budget exactly), line layouts (blank/newline/continuation/blank-line/tab separators, leading blanks), 0-3 initial arguments, every subset of -n/-L/-s/-x/-r, input mode default/-0/-d; the built xargs binary runs the rec recorder. Oracle: greedy reference batcher from the statement (expected invocation list) AND independent validity predicates on the observed list (lossless, ordered, each limit, maximality, prefix unchanged). Non-trivial = >=2 invocations AND (>=2 limits active, or a line continuation under -L, or a batch filled to the -s limit exactly). Distinct = distinct case JSON.",
    assumptions: &[
        "when -n and -L are both given the last one is in force (C20's rule) and the asserted limits are those",
        "the system (ARG_MAX) limiter is never the binding one here (inputs are far below it); that is C06's subject",
        "rec is invoked by absolute path; its length is part of the -s arithmetic on both sides",
    ],
    run,
    replay,
    fuzz: None,
};

#[derive(Serialize, Deserialize, Debug, Clone)]
pub struct Case {
    pub args: Vec<String>,
    /// terminator after each argument: 0 " ", 1 "\n", 2 " \n", 3 "  ", 4 "\n\n", 5 "\t", 6 "\n \n"
    pub seps: Vec<u8>,
    /// 0 none, 1 " ", 2 "\n", 3 " \n "
    pub lead: u8,
    pub final_newline: bool,
    /// 0 blank/newline mode, 1 -0, 2 -d ',', 3 -d '\n'
    pub mode: u8,
    pub initial: Vec<String>,
    pub n: Option<usize>,
    pub l: Option<usize>,
    pub s: Option<usize>,
    pub x: bool,
    pub r: bool,
    pub n_before_l: bool,
}

const WORDS: &[&str] = &["a", "b", "ab", "x1", "foo", "é", "日本", "a.b", "-n", "--", "q_q", "0", "longer-word", "zz"];

fn gen_arg(g: &mut Gen, delim_mode: bool) -> String {
    let mut s = String::new();
    let pieces = if g.chance(1, 8) { g.usize_in(5, 14) } else { g.usize_in(1, 3) };
    for _ in 0..pieces {
        s.push_str(g.pick(WORDS));
        if delim_mode && g.chance(1, 5) {
            s.push_str(g.pick(&[" ", "\t", "'", "\"", "\\", "  "]));
        }
    }
    s
}

fn cost(s: &[u8]) -> usize {
    s.len() + 1
}

pub fn gen_case(g: &mut Gen) -> Case {
    let mode = g.weighted(&[6, 2, 1, 1]) as u8;
    let nargs = if g.chance(1, 12) { 0 } else { g.usize_in(1, 40) };
    let mut args: Vec<String> = (0..nargs).map(|_| gen_arg(g, mode != 0)).collect();
    if mode == 3 {
        // newline is the delimiter: keep it out of the arguments (it is not generated anyway)
        args.iter_mut().for_each(|a| *a = a.replace('\n', "_"));
    }
    let seps = (0..nargs).map(|_| g.weighted(&[6, 5, 2, 1, 1, 1, 1]) as u8).collect();
    let initial: Vec<String> = g.vec_of(0, 3, |g| g.pick(&["i", "-v", "init arg", "é", "{}", "x"]).to_string());
    let base: usize = cost(rec_path().as_bytes()) + initial.iter().map(|i| cost(i.as_bytes())).sum::<usize>();
    let n = if g.chance(1, 2) { Some(g.usize_in(1, 6)) } else { None };
    let l = if g.chance(1, 3) { Some(g.usize_in(1, 4)) } else { None };
    let s = if g.chance(1, 2) {
        // aim at a partial sum of argument costs so that the boundary is hit
        let k = g.usize_in(0, nargs.min(8));
        let start = if nargs > 0 { g.usize_in(0, nargs - 1) } else { 0 };
        let sum: usize = args.iter().skip(start).take(k).map(|a| cost(a.as_bytes())).sum();
        let delta = g.range(-2, 2);
        let v = match g.below(8) {
            0 => g.usize_in(1, base + 5),   // often too small for the base command
            1 => base + g.usize_in(0, 300), // anywhere
            _ => (base as i64 + sum as i64 + delta).max(1) as usize,
        };
        Some(v)
    } else {
        None
    };
    Case { args, seps, lead: g.weighted(&[6, 1, 1, 1]) as u8, final_newline: g.chance(3, 4), mode, initial, n, l, s, x: g.chance(1, 3), r: g.chance(1, 3), n_before_l: g.bool() }
}

fn sep_text(code: u8) -> &'static str {
    match code {
        0 => " ",
        1 => "\n",
        2 => " \n",
        3 => "  ",
        4 => "\n\n",
        5 => "\t",
        _ => "\n \n",
    }
}

/// (input bytes, hard flag per argument)
pub fn render_input(c: &Case) -> (Vec<u8>, Vec<bool>) {
    let mut out = Vec::new();
    let mut hard = vec![];
    if c.mode == 0 {
        out.extend_from_slice(match c.lead {
            0 => "",
            1 => " ",
            2 => "\n",
            _ => " \n ",
        }.as_bytes());
        for (i, a) in c.args.iter().enumerate() {
            out.extend_from_slice(a.as_bytes());
            let last = i + 1 == c.args.len();
            if last {
                if c.final_newline {
                    out.push(b'\n');
                }
                hard.push(c.final_newline);
            } else {
                let st = sep_text(c.seps[i]);
                out.extend_from_slice(st.as_bytes());
                // hard iff the first separator byte after the argument is a newline
                hard.push(st.starts_with('\n'));
            }
        }
    } else {
        let d = match c.mode {
            1 => 0u8,
            2 => b',',
            _ => b'\n',
        };
        if c.lead >= 2 {
            out.push(d); // leading empty field
        }
        for (i, a) in c.args.iter().enumerate() {
            out.extend_from_slice(a.as_bytes());
            let last = i + 1 == c.args.len();
            if !last || c.final_newline {
                out.push(d);
                if !last && c.seps[i] >= 3 {
                    out.push(d); // repeated delimiter = empty field, no argument
                }
            }
            hard.push(true);
        }
    }
    (out, hard)
}

#[derive(Debug, PartialEq, Eq, Clone)]
pub enum Stop {
    BaseTooLarge,
    ArgTooLarge(usize),
    ExitOnOverflow(usize),
}

pub struct Model {
    pub batches: Vec<Vec<usize>>,
    pub stop: Option<Stop>,
    /// some batch was filled to the -s limit exactly
    pub exact_fill: bool,
}

pub fn effective(c: &Case) -> (Option<usize>, Option<usize>) {
    match (c.n, c.l) {
        (Some(n), Some(l)) => {
            if c.n_before_l {
                (None, Some(l))
            } else {
                (Some(n), None)
            }
        }
        other => other,
    }
}

pub fn model(c: &Case, hard: &[bool], base: usize) -> Model {
    let (n, l) = effective(c);
    let s = c.s;
    let mut m = Model { batches: vec![], stop: None, exact_fill: false };
    if let Some(s) = s {
        if base > s {
            m.stop = Some(Stop::BaseTooLarge);
            return m;
        }
    }
    let mut cur: Vec<usize> = vec![];
    let mut chars = base;
    let mut lines = 0usize;
    for (i, a) in c.args.iter().enumerate() {
        let ca = cost(a.as_bytes());
        let ok_n = n.map_or(true, |n| cur.len() < n);
        let ok_l = l.map_or(true, |l| lines < l);
        let ok_s = s.map_or(true, |s| chars + ca <= s);
        if !(ok_n && ok_l && ok_s) {
            if ok_n && ok_l && !ok_s && c.x && (n.is_some() || l.is_some()) {
                if !cur.is_empty() {
                    m.batches.push(cur.clone()); // may or may not have run: prefix semantics
                }
                m.stop = Some(Stop::ExitOnOverflow(i));
                return m;
            }
            if !cur.is_empty() {
                m.batches.push(std::mem::take(&mut cur));
            }
            chars = base;
            lines = 0;
            if let Some(s) = s {
                if chars + ca > s {
                    m.stop = Some(Stop::ArgTooLarge(i));
                    return m;
                }
            }
        }
        cur.push(i);
        chars += ca;
        if Some(chars) == s {
            m.exact_fill = true;
        }
        if hard[i] {
            lines += 1;
        }
    }
    if !cur.is_empty() || (c.args.is_empty() && !c.r) {
        m.batches.push(cur);
    }
    m
}

pub fn cmdline(c: &Case) -> Vec<OsString> {
    let mut o: Vec<OsString> = vec![];
    let push_n = |o: &mut Vec<OsString>| {
        if let Some(n) = c.n {
            o.push("-n".into());
            o.push(n.to_string().into());
        }
    };
    let push_l = |o: &mut Vec<OsString>| {
        if let Some(l) = c.l {
            o.push("-L".into());
            o.push(l.to_string().into());
        }
    };
    if c.n_before_l {
        push_n(&mut o);
        push_l(&mut o);
    } else {
        push_l(&mut o);
        push_n(&mut o);
    }
    if let Some(s) = c.s {
        o.push("-s".into());
        o.push(s.to_string().into());
    }
    if c.x {
        o.push("-x".into());
    }
    if c.r {
        o.push("-r".into());
    }
    match c.mode {
        1 => o.push("-0".into()),
        2 => {
            o.push("-d".into());
            o.push(",".into());
        }
        3 => {
            o.push("-d".into());
            o.push("\\n".into());
        }
        _ => {}
    }
    o
}

pub fn check(ctx: &mut Ctx, c: &Case) -> Outcome {
    let (input, hard) = render_input(c);
    let rec = rec_path();
    let base = cost(rec.as_bytes()) + c.initial.iter().map(|i| cost(i.as_bytes())).sum::<usize>();
    let m = model(c, &hard, base);
    let (n, l) = effective(c);
    let opts = cmdline(c);
    let mut cmd: Vec<OsString> = vec![rec.clone()];
    cmd.extend(c.initial.iter().map(OsString::from));
    let run = run_xargs(ctx, &opts, &cmd, &input, "", BinOpts { clear_env: true, ..Default::default() });
    let limits = format!("{}{}{}{}", if n.is_some() { "n" } else { "" }, if l.is_some() { "L" } else { "" }, if c.s.is_some() { "s" } else { "" }, if c.x { "x" } else { "" });
    let desc = || {
        format!(
            "xargs {} rec {:?}\ninput: {:?}\nexit: {:?} signal: {:?}\nstderr: {:?}\nexpected batches: {:?} stop: {:?}\nobserved: {:?}",
            opts.iter().map(|o| o.to_string_lossy().into_owned()).collect::<Vec<_>>().join(" "),
            c.initial,
            lossy(&input),
            run.out.code,
            run.out.signal,
            lossy(&run.out.stderr),
            m.batches.iter().map(|b| b.iter().map(|i| c.args[*i].clone()).collect::<Vec<_>>()).collect::<Vec<_>>(),
            m.stop,
            run.records.iter().map(|r| r.args.iter().map(|a| lossy(a)).collect::<Vec<_>>()).collect::<Vec<_>>()
        )
    };
    if !run.out.ordinary() {
        return fail(format!("C04:abnormal-termination:{limits}"), desc());
    }
    // every invocation starts with the unchanged initial arguments
    let mut appended: Vec<Vec<Vec<u8>>> = vec![];
    for r in &run.records {
        if r.args.len() < c.initial.len() || r.args[..c.initial.len()].iter().zip(&c.initial).any(|(a, b)| a != b.as_bytes()) {
            return fail(format!("C04:initial-arguments-changed:{limits}"), desc());
        }
        appended.push(r.args[c.initial.len()..].to_vec());
    }
    let flat: Vec<&Vec<u8>> = appended.iter().flatten().collect();
    match &m.stop {
        None => {
            if run.out.code != Some(0) {
                return fail(format!("C04:unexpected-exit-status:{limits}"), desc());
            }
            // validity predicates, independent of the model's batch list
            if flat.len() != c.args.len() || flat.iter().zip(&c.args).any(|(a, b)| a.as_slice() != b.as_bytes()) {
                return fail(format!("C04:arguments-lost-duplicated-or-reordered:{limits}"), desc());
            }
            let mut idx = 0usize;
            for (bi, b) in appended.iter().enumerate() {
                if b.is_empty() && !(c.args.is_empty() && !c.r && appended.len() == 1) {
                    return fail(format!("C04:empty-invocation:{limits}"), desc());
                }
                let chars: usize = base + b.iter().map(|a| cost(a)).sum::<usize>();
                let lines = hard[idx..idx + b.len()].iter().filter(|h| **h).count();
                // a batch may end in a partial (unterminated) line, which also counts as a line
                let partial = b.last().map_or(false, |_| !hard[idx + b.len() - 1]);
                if let Some(n) = n {
                    if b.len() > n {
                        return fail("C04:max-args-exceeded", desc());
                    }
                }
                if let Some(l) = l {
                    if lines + partial as usize > l {
                        return fail("C04:max-lines-exceeded", desc());
                    }
                }
                if let Some(s) = c.s {
                    if chars > s {
                        return fail("C04:max-chars-exceeded", desc());
                    }
                }
                // maximality: the next argument would have broken a limit
                let next = idx + b.len();
                if bi + 1 < appended.len() && next < c.args.len() {
                    let fits_n = n.map_or(true, |n| b.len() < n);
                    let fits_l = l.map_or(true, |l| lines < l);
                    let fits_s = c.s.map_or(true, |s| chars + cost(c.args[next].as_bytes()) <= s);
                    if fits_n && fits_l && fits_s {
                        return fail(format!("C04:not-maximal:{limits}"), desc());
                    }
                }
                idx += b.len();
            }
            // and the model's batch list
            let exp: Vec<Vec<&[u8]>> = m.batches.iter().map(|b| b.iter().map(|i| c.args[*i].as_bytes()).collect()).collect();
            let got: Vec<Vec<&[u8]>> = appended.iter().map(|b| b.iter().map(|a| a.as_slice()).collect()).collect();
            if exp != got {
                return fail(format!("C04:batches-differ-from-model:{limits}"), desc());
            }
        }
        Some(stop) => {
            if run.out.code != Some(1) {
                return fail(format!("C04:overflow-not-exit-1:{limits}"), desc());
            }
            if run.out.stderr.is_empty() {
                return fail("C04:overflow-without-diagnostic", desc());
            }
            let exp: Vec<Vec<&[u8]>> = m.batches.iter().map(|b| b.iter().map(|i| c.args[*i].as_bytes()).collect()).collect();
            let got: Vec<Vec<&[u8]>> = appended.iter().map(|b| b.iter().map(|a| a.as_slice()).collect()).collect();
            if got.len() > exp.len() || got.iter().zip(&exp).any(|(a, b)| a != b) {
                return fail(format!("C04:after-overflow-records-not-a-prefix:{stop:?}").split('(').next().unwrap().to_string() + ":" + &limits, desc());
            }
        }
    }
    let active = n.is_some() as u32 + l.is_some() as u32 + c.s.is_some() as u32;
    let continuation = l.is_some() && c.mode == 0 && c.seps.iter().take(c.args.len().saturating_sub(1)).any(|s| *s == 2);
    let nontrivial = run.records.len() >= 2 && (active >= 2 || continuation || m.exact_fill);
    Pass::new(nontrivial)
        .class_if(m.stop.is_some(), "overflow-exit-1")
        .class_if(matches!(m.stop, Some(Stop::ExitOnOverflow(_))), "x-overflow")
        .class_if(m.exact_fill, "exact-fill-of-s")
        .class_if(continuation, "line-continuation")
        .class_if(c.args.is_empty(), "empty-input")
        .class_if(c.mode != 0, "delimiter-mode")
        .class_if(run.records.len() >= 2, "two-or-more-invocations")
        .class_if(active >= 2, "two-or-more-limits")
        .class_if(c.args.iter().any(|a| !a.is_ascii()), "multibyte-args")
        .sample(json!({"cmdline": format!("xargs {} rec {:?}", opts.iter().map(|o| o.to_string_lossy().into_owned()).collect::<Vec<_>>().join(" "), c.initial), "input": lossy(&input), "invocations": run.records.len()}))
        .ok()
}

fn run(w: &mut Worker) {
    w.regress::<Case>("batch", check);
    w.random("batch", w.tier.pick(20_000, 200_000), (60, 400), 600, gen_case, check);
}

fn replay(w: &mut Worker, _sub: &str, v: Value) -> Outcome {
    check(&mut w.ctx, &decode(v))
}
