//! C03 — visit order: pre/post-order (-depth); -prune cuts exactly one subtree.

use super::{decode, PropDef};
use crate::engine::expr::{self, Evaluator, Ex, Parser, Prim, RenderStyle};
use crate::engine::fsx::{gen_tree, ref_walk, FollowMode, Kind, Node, TreeParams, TreeSpec, WalkOpts};
use crate::engine::proc::{lossy, Ctx};
use crate::engine::{fail, inconclusive, Gen, Outcome, Pass, Worker};
use serde::{Deserialize, Serialize};
use serde_json::{json, Value};

pub static DEF: PropDef = PropDef {
    id: "C03",
    rule: "exhaustive: every tree with <=5 nodes below the starting point (every parent vector x file/directory labelling, names chosen so that creation order differs from byte order) x every subset of its directories selected for pruning (by -path) x {default order, -depth}; random: trees <=30 nodes x prune predicates by -name/-path/disjunction placed as 'TEST -prune -o ACTION', '( TEST -prune ) , ACTION', 'ACTION TEST -prune', negated and nested forms x -depth/-d x depth bounds x -P/-H/-L. Oracle: exact sequence equality with the reference DFS (byte-wise sibling order via -sorted) + model-independent invariants on the observed sequence (parent before/after child, nothing under a pruned directory, siblings ascending). Non-trivial = a directory with >=1 descendant is pruned and it is neither the first nor the only child of its parent, or -depth is combined with an evaluated -prune. Distinct = distinct case JSON.",
    assumptions: &["the xdev sub-run reads the top level of / and /dev of the machine it runs on (no other mount points are reachable from a sandbox); it is repeated if the listing changes during a run", "-sorted is always given (the statement defines the order only with it)", "-delete is exercised in C10 (it implies -depth); here -depth/-d are given explicitly"],
    run,
    replay,
    fuzz: None,
};

#[derive(Serialize, Deserialize, Debug, Clone)]
pub struct Case {
    pub tree: TreeSpec,
    pub roots: Vec<String>,
    pub ex: Ex,
    pub style: Vec<u8>,
    /// 0 -P, 1 -H, 2 -L
    pub follow: u8,
    pub depth_opt: u8, // 0 none, 1 -depth, 2 -d
    /// where the options (-depth/-d, -mindepth, -maxdepth) stand: 0 before the expression,
    /// 1 after it ("( EX ) -depth"), 2 after it in an unreachable-or-not "-o" branch, 3 -delete-free
    /// mix: depth option after, bounds before
    #[serde(default)]
    pub opts_pos: u8,
    pub mindepth: Option<usize>,
    pub maxdepth: Option<usize>,
}

fn gen_test(g: &mut Gen, names: &[String], paths: &[String]) -> Ex {
    let name = |g: &mut Gen| {
        let n = g.pick(names);
        let first: String = n.chars().take(1).collect();
        Ex::P(Prim::Name(if g.chance(1, 3) { format!("{first}*") } else { n }, false))
    };
    let path = |g: &mut Gen| {
        let p = g.pick(paths);
        Ex::P(Prim::Path(if g.chance(1, 4) { format!("{p}*") } else { p }))
    };
    match g.weighted(&[4, 4, 2, 2, 1]) {
        0 => name(g),
        1 => path(g),
        2 => Ex::Or(Box::new(name(g)), Box::new(path(g))),
        3 => Ex::And(Box::new(Ex::P(Prim::Type('d'))), Box::new(name(g))),
        _ => Ex::Not(Box::new(name(g))),
    }
}

pub fn gen_case(g: &mut Gen) -> Case {
    let params = TreeParams { max_nodes: 30, max_depth: 5, kind_w: [7, 5, 2, 0, 0, 0], self_links: false, ..Default::default() };
    let mut tree = gen_tree(g, "c/r", &params);
    tree.nodes.push(Node::new("c/rl", Kind::Link("r".into())));
    let names: Vec<String> = tree.nodes.iter().map(|n| n.name().to_string()).collect();
    let root = if g.chance(1, 6) { "c/rl" } else { "c/r" }.to_string();
    let paths: Vec<String> = tree.nodes.iter().filter(|n| n.path.starts_with("c/r")).map(|n| n.path.replacen("c/r", &root, 1)).collect();
    let t = gen_test(g, &names, &paths);
    let b = Box::new;
    let pr = || Ex::P(Prim::Prune);
    let act = |g: &mut Gen| if g.bool() { Ex::P(Prim::Print) } else { Ex::P(Prim::Printf("v".into())) };
    let ex = match g.below(7) {
        0 => Ex::Or(b(Ex::And(b(t), b(pr()))), b(act(g))),
        1 => Ex::List(b(Ex::And(b(t), b(pr()))), b(act(g))),
        2 => Ex::And(b(act(g)), b(Ex::And(b(t), b(pr())))),
        3 => Ex::List(b(Ex::Or(b(Ex::Not(b(t))), b(pr()))), b(act(g))),
        4 => {
            let inner = Ex::And(b(pr()), b(Ex::P(Prim::Printf("p".into()))));
            Ex::And(b(act(g)), b(Ex::Or(b(Ex::Not(b(t))), b(inner))))
        }
        5 => {
            let inner = Ex::And(b(pr()), b(Ex::P(Prim::Printf("p".into()))));
            Ex::Or(b(Ex::And(b(t), b(inner))), b(act(g)))
        }
        _ => Ex::Or(b(Ex::Not(b(Ex::Or(b(Ex::Not(b(t))), b(Ex::Not(b(pr()))))))), b(act(g))),
    };
    let md = |g: &mut Gen| if g.chance(1, 4) { Some(g.usize_in(0, 4)) } else { None };
    Case { tree, roots: vec![root], ex, style: (0..24).map(|_| g.below(256) as u8).collect(), follow: g.weighted(&[5, 2, 3]) as u8, depth_opt: g.weighted(&[5, 2, 1]) as u8, opts_pos: g.weighted(&[3, 2, 1, 2]) as u8, mindepth: md(g), maxdepth: md(g) }
}

fn parent_of(p: &str) -> Option<&str> {
    p.rfind('/').map(|i| &p[..i])
}

/// invariants on an observed visit sequence, independent of the reference model
fn order_invariants(seq: &[String], post: bool, pruned: &[String]) -> Option<(&'static str, String)> {
    let pos = |p: &str| seq.iter().position(|x| x == p);
    for (i, p) in seq.iter().enumerate() {
        if let Some(par) = parent_of(p) {
            if let Some(j) = pos(par) {
                if !post && j > i {
                    return Some(("child-before-parent", format!("{p} at {i}, parent {par} at {j}")));
                }
                if post && j < i {
                    return Some(("parent-before-child-under-depth", format!("{p} at {i}, parent {par} at {j}")));
                }
            }
        }
        if !post {
            for d in pruned {
                if p.starts_with(&format!("{d}/")) {
                    return Some(("entry-below-pruned-directory", format!("{p} is under pruned {d}")));
                }
            }
        }
    }
    // siblings ascending byte-wise (first occurrence order)
    for i in 0..seq.len() {
        for j in i + 1..seq.len() {
            if parent_of(&seq[i]) == parent_of(&seq[j]) && parent_of(&seq[i]).is_some() && seq[i].as_bytes() > seq[j].as_bytes() {
                return Some(("siblings-not-in-byte-order", format!("{} before {}", seq[i], seq[j])));
            }
        }
    }
    None
}

fn run_and_compare(ctx: &mut Ctx, roots: &[String], tokens: &[String], fm: FollowMode, label_lines: bool) -> Outcome {
    let parsed = match Parser::new(tokens).parse_all() {
        Ok(Some(e)) => e,
        other => inconclusive(&format!("C03 generator produced unparsable tokens {tokens:?}: {other:?}")),
    };
    let go = expr::global_opts(&parsed);
    let wo = WalkOpts { follow: fm, depth_first: go.depth_first, min_depth: go.min_depth, max_depth: go.max_depth.unwrap_or(usize::MAX), as_other: false };
    let mut ev = Evaluator::new(&parsed, go.depth_first);
    let mut events = vec![];
    let mut pruned: Vec<String> = vec![];
    let mut pruned_nontrivial = false;
    for r in roots {
        let mut prev_prunes = 0;
        let cont = ref_walk(r, &wo, &mut |e| {
            let a = ev.visit(e);
            if ev.out.prune_fired > prev_prunes {
                prev_prunes = ev.out.prune_fired;
                if !go.depth_first {
                    pruned.push(e.path.clone());
                    // non-trivial: has a descendant and is neither first nor only child
                    let has_child = std::fs::read_dir(&e.path).map(|mut d| d.next().is_some()).unwrap_or(false);
                    if has_child && e.depth > 0 {
                        if let Some(par) = parent_of(&e.path) {
                            let mut sibs: Vec<String> = std::fs::read_dir(par).map(|d| d.flatten().map(|x| x.file_name().to_string_lossy().into_owned()).collect()).unwrap_or_default();
                            sibs.sort();
                            if sibs.len() > 1 && sibs.first().map(|s| s.as_str()) != Some(e.name()) {
                                pruned_nontrivial = true;
                            }
                        }
                    }
                }
            }
            a
        }, &mut events);
        if !cont {
            break;
        }
    }
    let mut args: Vec<&str> = vec![fm.flag()];
    args.extend(roots.iter().map(|s| s.as_str()));
    args.extend(tokens.iter().map(|s| s.as_str()));
    let desc = format!("find {}", args.iter().map(|a| format!("{a:?}")).collect::<Vec<_>>().join(" "));
    let o = ctx.find(&args);
    if let Some(p) = o.panic {
        return fail(format!("C03:panic:{}", p.split(": ").next().unwrap_or("?")), format!("{desc}\npanic: {p}"));
    }
    let root_link_to_dir = roots.iter().any(|r| std::fs::symlink_metadata(r).map(|m| m.file_type().is_symlink()).unwrap_or(false) && std::fs::metadata(r).map(|m| m.is_dir()).unwrap_or(false));
    let known_ctx = fm == FollowMode::H && go.depth_first && root_link_to_dir;
    let sig = |kind: &str| {
        if known_ctx {
            "C03:-H:-depth:starting-point-is-link-to-directory".to_string()
        } else {
            format!("C03:{kind}:{}{}{}", fm.flag(), if go.depth_first { ":depth" } else { "" }, if go.max_depth.is_some() || go.min_depth > 0 { ":bounded" } else { "" })
        }
    };
    if o.stdout != ev.out.stdout {
        return fail(sig("sequence-differs-from-reference"), format!("{desc}\nexpected: {:?}\nobserved: {:?}\nstderr: {:?}", lossy(&ev.out.stdout), lossy(&o.stdout), lossy(&o.stderr)));
    }
    // invariants on the observed sequence of the 'v' / plain lines
    let seq: Vec<String> = lossy(&o.stdout).lines().filter_map(|l| if label_lines { l.strip_prefix("v:").map(|s| s.to_string()).or_else(|| if l.starts_with("p:") { None } else { Some(l.to_string()) }) } else { Some(l.to_string()) }).collect();
    if let Some((k, d)) = order_invariants(&seq, go.depth_first, &pruned) {
        return fail(sig(k), format!("{desc}\n{d}\nobserved: {seq:?}"));
    }
    let depth_with_prune = go.depth_first && ev.out.prune_fired > 0;
    Pass::new(pruned_nontrivial || depth_with_prune)
        .class_if(pruned_nontrivial, "pruned-middle-directory-with-descendants")
        .class_if(depth_with_prune, "depth-with-prune")
        .class_if(!pruned.is_empty(), "some-directory-pruned")
        .class_if(go.max_depth.is_some() || go.min_depth > 0, "depth-bounds")
        .class(match fm {
            FollowMode::P => "follow-P",
            FollowMode::H => "follow-H",
            FollowMode::L => "follow-L",
        })
        .sample(json!({"cmdline": desc, "visited": seq.len(), "pruned": pruned}))
        .ok()
}

pub fn check(ctx: &mut Ctx, c: &Case) -> Outcome {
    ctx.fresh_case_dir();
    c.tree.build();
    let mut tokens: Vec<String> = vec!["-sorted".into()];
    let mut depth_toks: Vec<String> = vec![];
    match c.depth_opt {
        1 => depth_toks.push("-depth".into()),
        2 => depth_toks.push("-d".into()),
        _ => {}
    }
    let mut bound_toks: Vec<String> = vec![];
    if let Some(m) = c.mindepth {
        bound_toks.push("-mindepth".into());
        bound_toks.push(m.to_string());
    }
    if let Some(m) = c.maxdepth {
        bound_toks.push("-maxdepth".into());
        bound_toks.push(m.to_string());
    }
    // options are global wherever they stand: before the expression, after it, or in a branch
    // that short-circuit evaluation may never reach
    let (before, after): (Vec<String>, Vec<String>) = match c.opts_pos {
        0 => ([depth_toks, bound_toks].concat(), vec![]),
        1 | 2 => (vec![], [depth_toks, bound_toks].concat()),
        _ => (bound_toks, depth_toks),
    };
    tokens.extend(before);
    // the expression goes in parentheses so that the options do not re-associate it
    tokens.push("(".into());
    let mut st = RenderStyle { choices: &c.style, pos: 0 };
    expr::render(&c.ex, &mut st, &mut tokens);
    tokens.push(")".into());
    if !after.is_empty() {
        if c.opts_pos == 2 {
            tokens.push("-o".into());
        }
        tokens.extend(after);
    }
    let fm = match c.follow {
        1 => FollowMode::H,
        2 => FollowMode::L,
        _ => FollowMode::P,
    };
    run_and_compare(ctx, &c.roots, &tokens, fm, true)
}

// ---- exhaustive small trees --------------------------------------------------

#[derive(Serialize, Deserialize, Debug, Clone)]
pub struct SmallCase {
    /// parent index per node (0 = the root), nodes numbered from 1
    pub parents: Vec<u8>,
    /// true = directory
    pub dirs: Vec<bool>,
    /// bit i set = node i+1 (a directory) is selected for pruning
    pub prune_mask: u8,
    pub post: bool,
}

const SMALL_NAMES: &[&str] = &["m", "b", "z", "a", "k"];

struct SmallTrees {
    queue: Vec<SmallCase>,
}

fn next_parents(p: &mut [u8]) -> bool {
    let n = p.len();
    let mut k = n;
    while k > 0 {
        k -= 1;
        if (p[k] as usize) < k {
            p[k] += 1;
            for j in k + 1..n {
                p[j] = 0;
            }
            return true;
        }
    }
    false
}

fn all_small(max_n: usize) -> Vec<SmallCase> {
    let mut out = vec![];
    for n in 0..=max_n {
        // parent vectors: parents[i] in 0..=i (node i+1's parent among root(0) and nodes 1..=i)
        let mut parents = vec![0u8; n];
        loop {
            for kinds in 0u32..(1 << n) {
                let dirs: Vec<bool> = (0..n).map(|i| kinds >> i & 1 == 1).collect();
                // parent must be the root or a directory
                if (0..n).all(|i| parents[i] == 0 || dirs[parents[i] as usize - 1]) {
                    let dir_idx: Vec<usize> = (0..n).filter(|i| dirs[*i]).collect();
                    for sub in 0u32..(1 << dir_idx.len()) {
                        let mut mask = 0u8;
                        for (k, di) in dir_idx.iter().enumerate() {
                            if sub >> k & 1 == 1 {
                                mask |= 1 << di;
                            }
                        }
                        for post in [false, true] {
                            out.push(SmallCase { parents: parents.clone(), dirs: dirs.clone(), prune_mask: mask, post });
                        }
                    }
                }
            }
            if !next_parents(&mut parents) {
                break;
            }
        }
    }
    out
}

impl Iterator for SmallTrees {
    type Item = SmallCase;
    fn next(&mut self) -> Option<SmallCase> {
        self.queue.pop()
    }
}

fn small_paths(c: &SmallCase) -> Vec<String> {
    let mut paths = vec!["c/r".to_string()];
    for i in 0..c.parents.len() {
        let par = paths[c.parents[i] as usize].clone();
        paths.push(format!("{par}/{}", SMALL_NAMES[i]));
    }
    paths
}

fn check_small(ctx: &mut Ctx, c: &SmallCase) -> Outcome {
    ctx.fresh_case_dir();
    let paths = small_paths(c);
    let mut t = TreeSpec::default();
    t.nodes.push(Node::new("c/r", Kind::Dir));
    for i in 0..c.parents.len() {
        t.nodes.push(Node::new(paths[i + 1].clone(), if c.dirs[i] { Kind::Dir } else { Kind::File }));
    }
    t.build();
    let sel: Vec<&String> = (0..c.parents.len()).filter(|i| c.prune_mask >> i & 1 == 1).map(|i| &paths[i + 1]).collect();
    // -depth is a global option: it must act the same before and after the -prune it disarms
    let placements: &[bool] = if c.post { &[false, true] } else { &[false] };
    let mut last = None;
    for depth_last in placements {
        let mut tokens: Vec<String> = vec!["-sorted".into()];
        if c.post && !depth_last {
            tokens.push("-depth".into());
        }
        tokens.push("-print".into());
        tokens.push("(".into());
        if sel.is_empty() {
            tokens.push("-false".into());
        }
        for (k, p) in sel.iter().enumerate() {
            if k > 0 {
                tokens.push("-o".into());
            }
            tokens.push("-path".into());
            tokens.push((*p).clone());
        }
        tokens.push(")".into());
        tokens.push("-prune".into());
        if c.post && *depth_last {
            tokens.push("-depth".into());
        }
        match run_and_compare(ctx, &["c/r".to_string()], &tokens, FollowMode::P, false) {
            Outcome::Fail(mut v) => {
                if *depth_last {
                    v.signature.push_str(":option-after-prune");
                }
                return Outcome::Fail(v);
            }
            ok => last = Some(ok),
        }
    }
    last.unwrap()
}

// ---- byte-wise sibling order with arbitrary (also non-UTF-8) names -----------------

#[derive(Serialize, Deserialize, Debug, Clone)]
pub struct ByteCase {
    pub names: Vec<Vec<u8>>,
    pub post: bool,
}

fn gen_bytecase(g: &mut Gen) -> ByteCase {
    let frags: &[&[u8]] = &[b"a", b"b", b"~", &[0xc3, 0xa9], &[0xff], &[0xef, 0xbf, 0xbd], &[0xf0, 0x9f, 0x98, 0x80], &[0x80], &[0xc3], b"A", &[0xe6, 0x97, 0xa5], &[0xfe]];
    let n = g.usize_in(2, 10);
    let mut names: Vec<Vec<u8>> = vec![];
    for _ in 0..n {
        let k = g.usize_in(1, 3);
        let mut v = vec![];
        for _ in 0..k {
            v.extend_from_slice(g.pick(frags));
        }
        if !names.contains(&v) {
            names.push(v);
        }
    }
    ByteCase { names, post: g.chance(1, 3) }
}

fn check_bytes(ctx: &mut Ctx, c: &ByteCase) -> Outcome {
    use std::os::unix::ffi::OsStrExt;
    use std::os::unix::fs::MetadataExt;
    ctx.fresh_case_dir();
    std::fs::create_dir("c/r").unwrap();
    let mut inos: Vec<(Vec<u8>, u64)> = vec![];
    for n in &c.names {
        let p = std::path::Path::new("c/r").join(std::ffi::OsStr::from_bytes(n));
        std::fs::File::create(&p).unwrap();
        inos.push((n.clone(), std::fs::symlink_metadata(&p).unwrap().ino()));
    }
    inos.sort_by(|a, b| a.0.cmp(&b.0));
    let expected: Vec<String> = inos.iter().map(|(_, i)| i.to_string()).collect();
    let mut args = vec!["c/r", "-sorted", "-mindepth", "1"];
    if c.post {
        args.push("-depth");
    }
    args.extend(["-printf", "%i\\n"]);
    let o = ctx.find(&args);
    let got: Vec<String> = lossy(&o.stdout).lines().map(|s| s.to_string()).collect();
    if got != expected {
        return fail("C03:siblings-not-in-byte-order:raw-names", format!("names (bytes) in byte order: {:?}\nexpected inode sequence {:?}\nobserved {:?}\nstderr {:?}", inos.iter().map(|(n, _)| n.clone()).collect::<Vec<_>>(), expected, got, lossy(&o.stderr)));
    }
    let invalid = c.names.iter().filter(|n| std::str::from_utf8(n).is_err()).count();
    Pass::new(invalid >= 1 && c.names.len() >= 3).class_if(invalid >= 2, "two-or-more-non-utf8-names").class("byte-order-raw-names").sample(json!({"names": c.names.iter().map(|n| lossy(n)).collect::<Vec<_>>()})).ok()
}

// ---- -prune on a directory that -xdev/-mount keeps the walk out of -------------------------------

/// The only mount points a sandboxed run can see are those of the system itself: "/" and "/dev" are
/// walked one level deep, read-only (`Ctx::find_system_readonly`), with -xdev or -mount and a -prune
/// on one child at a time.
#[derive(Serialize, Deserialize, Debug, Clone)]
pub struct XdevCase {
    pub root: String,
    /// name of the child -prune is applied to
    pub name: String,
    /// 0 "-name N -prune -o -print", 1 "-name N -prune -print -o -print", 2 "( -name N -prune ) , -print"... all under -maxdepth 1
    pub form: u8,
    /// 0 -xdev, 1 -mount, 2 neither
    pub opt: u8,
}

fn xdev_children(root: &str) -> Vec<String> {
    use std::os::unix::ffi::OsStrExt;
    let mut names: Vec<Vec<u8>> = std::fs::read_dir(root).map(|rd| rd.filter_map(|e| e.ok()).map(|e| e.file_name().as_bytes().to_vec()).collect()).unwrap_or_default();
    names.sort();
    names.into_iter().filter_map(|n| String::from_utf8(n).ok()).collect()
}

fn check_xdev(ctx: &mut Ctx, c: &XdevCase) -> Outcome {
    use std::os::unix::fs::MetadataExt;
    let children = xdev_children(&c.root);
    if !children.contains(&c.name) || c.name.contains(|ch: char| "*?[\\".contains(ch)) {
        return Pass::discard("no such child now");
    }
    let join = |n: &str| if c.root.ends_with('/') { format!("{}{n}", c.root) } else { format!("{}/{n}", c.root) };
    let root_dev = std::fs::metadata(&c.root).map(|m| m.dev()).ok();
    let target = join(&c.name);
    let is_dir = std::fs::symlink_metadata(&target).map(|m| m.is_dir()).unwrap_or(false);
    let other_fs = is_dir && std::fs::metadata(&target).map(|m| Some(m.dev()) != root_dev).unwrap_or(false);
    let mut want: Vec<String> = vec![c.root.clone()];
    for n in &children {
        if c.form == 0 && *n == c.name {
            continue;
        }
        want.push(join(n));
    }
    let mut args: Vec<String> = vec![c.root.clone(), "-maxdepth".into(), "1".into()];
    match c.opt {
        0 => args.push("-xdev".into()),
        1 => args.push("-mount".into()),
        _ => {}
    }
    args.push("-sorted".into());
    match c.form {
        0 => args.extend(["-name", &c.name, "-prune", "-o", "-print"].iter().map(|x| x.to_string())),
        _ => args.extend(["-name", &c.name, "-prune", "-print", "-o", "-print"].iter().map(|x| x.to_string())),
    }
    let a: Vec<&str> = args.iter().map(|x| x.as_str()).collect();
    let o = ctx.find_system_readonly(&a);
    if let Some(p) = o.panic {
        return fail(format!("C03:panic:{}", p.split(": ").next().unwrap_or("?")), format!("find {args:?}: {p}"));
    }
    let got: Vec<String> = o.stdout.split(|b| *b == b'\n').filter(|l| !l.is_empty()).map(lossy).collect();
    // the listing is taken from a live system directory: compare again if it changed meanwhile
    if got != want && xdev_children(&c.root) != children {
        return Pass::discard("the directory changed during the run");
    }
    if got != want {
        let missing: Vec<&String> = want.iter().filter(|w| !got.contains(w)).collect();
        return fail(
            format!("C03:prune-on-a-directory-of-another-file-system:{}:{}", ["-xdev", "-mount", "no-option"][c.opt as usize % 3], if missing.is_empty() { "sequence-differs" } else { "later-siblings-lost" }),
            format!("find {}\n{} is {}a directory on another file system than {}\nexpected {want:?}\nobserved {got:?}\nstderr {:?}", args.join(" "), target, if other_fs { "" } else { "NOT " }, c.root, lossy(&o.stderr)),
        );
    }
    Pass::new(other_fs && c.opt != 2 && children.last() != Some(&c.name))
        .class("xdev")
        .class_if(other_fs, "pruned-directory-is-a-mount-point")
        .class_if(is_dir && !other_fs, "pruned-directory-on-the-same-file-system")
        .sample(json!({"cmdline": format!("find {}", args.join(" ")), "entries": want.len()}))
        .ok()
}

fn run(w: &mut Worker) {
    w.regress::<Case>("prune", check);
    w.regress::<SmallCase>("small", check_small);
    let n = w.tier.pick(4, 5);
    let mut q = all_small(n);
    q.reverse();
    w.exhaustive("small", &format!("all trees with <={n} nodes below the starting point x file/dir labelling x every prune subset x {{pre,post}}"), SmallTrees { queue: q }, check_small);
    w.random("prune", w.tier.pick(60_000, 800_000), (60, 450), 1500, gen_case, check);
    let mut xd: Vec<XdevCase> = vec![];
    for root in ["/", "/dev"] {
        for name in xdev_children(root) {
            for form in 0..2u8 {
                for opt in 0..3u8 {
                    xd.push(XdevCase { root: root.to_string(), name: name.clone(), form, opt });
                }
            }
        }
    }
    w.regress::<XdevCase>("xdev", check_xdev);
    w.exhaustive("xdev", "/ and /dev walked one level deep (read-only) x -prune on each child in turn x {-xdev, -mount, neither} x {pruned entry printed or not}: every other child must still be visited, in order", xd.into_iter(), check_xdev);
    w.regress::<ByteCase>("byteorder", check_bytes);
    w.random("byteorder", w.tier.pick(10_000, 100_000), (20, 60), 500, gen_bytecase, check_bytes);
}

fn replay(w: &mut Worker, sub: &str, v: Value) -> Outcome {
    match sub {
        "small" => check_small(&mut w.ctx, &decode(v)),
        "byteorder" => check_bytes(&mut w.ctx, &decode(v)),
        "xdev" => check_xdev(&mut w.ctx, &decode(v)),
        _ => check(&mut w.ctx, &decode(v)),
    }
}
