//! C13 — type/perm/owner/link tests are functions of the right stat record.

use super::{decode, PropDef};
use crate::engine::fsx::{make_entry, ref_paths, FollowMode, Kind, Node, RefEntry, TreeSpec, WalkOpts};
use crate::engine::proc::{lossy, Ctx};
use crate::engine::{fail, Gen, Outcome, Pass, Worker};
use serde::{Deserialize, Serialize};
use serde_json::{json, Value};
use std::os::unix::fs::MetadataExt;

pub static DEF: PropDef = PropDef {
    id: "C13",
    rule: "random: one directory holding every creatable type (regular empty/non-empty, directory empty/non-empty, fifo, socket, hard-linked pair, symlinks to each of those, dangling link), each with a random 12-bit mode and uid/gid from {0,1,65534,54321} (lchown for links) x follow mode (1 case in 5 preceded by another follow option, which it overrides) x {entries as starting points (depth 0), one level down, starting points walked to the bottom; the last two also under -depth} x ~14 tests per tree drawn from -type/-xtype t, -perm M|-M|/M in octal and six symbolic spellings (per-class '=', additive chains, who-less clauses, subtractive 'a=rwx,o-w', copying 'g=u,o=g', overriding 'a=rwx,u=..'; s/t bits; conditional 'X' as in a+X, u=rwX, u+x,go+X), -links/-inum/-uid/-gid [+-]N around real values, -user/-group by name and number, -empty, -samefile F for every F, -lname. Oracle: predicate over lstat/stat records chosen per the statement. Exhaustive -perm sub-run: a directory of 4096 regular files, one per permission value; each operand is evaluated against ALL modes (operands: 300 random x 3 forms in quick, all 4096 x 3 in thorough), octal and symbolic spellings must select identical sets. Non-trivial = the entry set contains a link whose lstat and stat records differ in the tested attribute and the test is evaluated on it (always true for the generated directory), and >= 1 entry is selected and >= 1 rejected. Distinct = distinct case JSON.",
    assumptions: &["the harness runs as root (chmod keeps all twelve bits, chown to ids without passwd entries works)", "who-less symbolic clauses (=rx, +x) mean 'a' - the process umask is not consulted (POSIX find / GNU find)"],
    run,
    replay,
    fuzz: None,
};

#[derive(Serialize, Deserialize, Debug, Clone)]
pub struct Test {
    pub tokens: Vec<String>,
}

#[derive(Serialize, Deserialize, Debug, Clone)]
pub struct Case {
    pub tree: TreeSpec,
    /// 0 -P, 1 -H, 2 -L
    pub follow: u8,
    pub depth0: bool,
    pub tests: Vec<Test>,
    /// 0: the follow option alone; 1, 2: preceded by one of the two other follow options, which the
    /// later one overrides
    #[serde(default)]
    pub earlier_flag: u8,
    /// 0: as above (entries evaluated at one depth only); 1: with `depth0` the starting points are
    /// walked to the bottom, so that the record of a starting point is chosen while entries below it
    /// are still to come; 2: the same under -depth (and -depth in the one-level form too), where a
    /// directory is evaluated after everything beneath it
    #[serde(default)]
    pub walk: u8,
}

const IDS: &[u32] = &[0, 1, 65534, 54321];

fn bits(m: u32, shift: u32, special: u32, special_ch: char) -> String {
    let mut s = String::new();
    if m >> shift & 4 != 0 {
        s.push('r');
    }
    if m >> shift & 2 != 0 {
        s.push('w');
    }
    if m >> shift & 1 != 0 {
        s.push('x');
    }
    if m & special != 0 {
        s.push(special_ch);
    }
    s
}

/// symbolic spellings of the 12-bit value `m`
pub fn symbolic(m: u32, variant: u8) -> String {
    let u = bits(m, 6, 0o4000, 's');
    let g = bits(m, 3, 0o2000, 's');
    let o = bits(m, 0, 0o1000, 't');
    match variant % 6 {
        0 => format!("u={u},g={g},o={o}"),
        1 => {
            // additive chain starting from nothing
            let mut parts: Vec<String> = vec![];
            for (who, b) in [("u", &u), ("g", &g), ("o", &o)] {
                for ch in b.chars() {
                    parts.push(format!("{who}+{ch}"));
                }
            }
            if parts.is_empty() {
                "a=".to_string()
            } else {
                parts.join(",")
            }
        }
        3 => {
            // subtractive: everything on, then later clauses take bits away again (clauses apply in sequence)
            let mut parts = vec!["a=rwx".to_string()];
            for (who, sh) in [("u", 6), ("g", 3), ("o", 0)] {
                let missing = bits(!m & (7 << sh), sh, 0, ' ');
                if !missing.is_empty() {
                    parts.push(format!("{who}-{missing}"));
                }
            }
            if m & 0o4000 != 0 {
                parts.push("u+s".into());
            }
            if m & 0o2000 != 0 {
                parts.push("g+s".into());
            }
            if m & 0o1000 != 0 {
                parts.push("o+t".into());
            }
            parts.join(",")
        }
        4 => {
            // copying: g=u / o=g take the permissions another class has at that point, then corrections
            let pu = (m >> 6) & 7;
            let pg = (m >> 3) & 7;
            let po = m & 7;
            let mut parts = vec![format!("u={}", bits(pu << 6, 6, 0, ' ')), "g=u".to_string()];
            let add = bits((pg & !pu) << 3, 3, 0, ' ');
            let del = bits((pu & !pg) << 3, 3, 0, ' ');
            if !add.is_empty() {
                parts.push(format!("g+{add}"));
            }
            if !del.is_empty() {
                parts.push(format!("g-{del}"));
            }
            parts.push("o=g".to_string());
            let add = bits(po & !pg, 0, 0, ' ');
            let del = bits(pg & !po, 0, 0, ' ');
            if !add.is_empty() {
                parts.push(format!("o+{add}"));
            }
            if !del.is_empty() {
                parts.push(format!("o-{del}"));
            }
            if m & 0o4000 != 0 {
                parts.push("u+s".into());
            }
            if m & 0o2000 != 0 {
                parts.push("g+s".into());
            }
            if m & 0o1000 != 0 {
                parts.push("+t".into());
            }
            parts.join(",")
        }
        5 => {
            // overriding: a first clause sets bits that the later '=' clauses replace
            format!("a=rwx,u={u},g={g},o={o}")
        }
        _ => {
            // who-less / 'a' clause for the bits common to all three, then the rest
            let perm = |x: u32| x & 7;
            let common = perm(m >> 6) & perm(m >> 3) & perm(m);
            let c = bits(common << 6, 6, 0, ' ');
            let mut parts = vec![format!("={c}")];
            let rest = m & !(common << 6 | common << 3 | common);
            for (who, sh, sp, spc) in [("u", 6, 0o4000, 's'), ("g", 3, 0o2000, 's'), ("o", 0, 0o1000, 't')] {
                let b = bits(rest, sh, sp, spc);
                if !b.is_empty() {
                    parts.push(format!("{who}+{b}"));
                }
            }
            parts.join(",")
        }
    }
}

pub fn gen_case(g: &mut Gen) -> Case {
    let mut nodes = vec![Node::new("c/d", Kind::Dir)];
    let base: Vec<(&str, Kind, u64)> = vec![
        ("reg", Kind::File, 7),
        ("empty", Kind::File, 0),
        ("dir", Kind::Dir, 0),
        ("dir/inner", Kind::File, 3),
        ("edir", Kind::Dir, 0),
        ("fifo", Kind::Fifo, 0),
        ("sock", Kind::Sock, 0),
        ("hl1", Kind::Hard("c/d/reg".into()), 0),
        ("l_reg", Kind::Link("reg".into()), 0),
        ("l_empty", Kind::Link("empty".into()), 0),
        ("l_dir", Kind::Link("dir".into()), 0),
        ("l_edir", Kind::Link("edir".into()), 0),
        ("l_fifo", Kind::Link("fifo".into()), 0),
        ("l_sock", Kind::Link("sock".into()), 0),
        ("l_dangling", Kind::Link("nowhere".into()), 0),
        ("l_l_reg", Kind::Link("l_reg".into()), 0),
    ];
    for (name, kind, size) in base {
        let mut n = Node::new(format!("c/d/{name}"), kind);
        n.size = size;
        if !matches!(n.kind, Kind::Link(_) | Kind::Hard(_)) {
            n.mode = Some(g.below(0o10000) as u32);
        }
        if !matches!(n.kind, Kind::Hard(_)) {
            n.owner = Some((g.pick(IDS), g.pick(IDS)));
        }
        nodes.push(n);
    }
    // directories must stay traversable for -empty / descent as any user: root ignores modes, fine.
    let follow = g.below(3) as u8;
    let depth0 = g.bool();
    let names: Vec<String> = nodes.iter().skip(1).map(|n| n.path.clone()).collect();
    let mut tests = vec![];
    let s = |x: &str| x.to_string();
    for _ in 0..14 {
        let t: Vec<String> = match g.weighted(&[3, 3, 6, 2, 2, 2, 2, 2, 1, 1, 2, 3, 3]) {
            0 => vec![s("-type"), g.pick(&["f", "d", "l", "p", "s"]).to_string()],
            1 => vec![s("-xtype"), g.pick(&["f", "d", "l", "p", "s"]).to_string()],
            2 => {
                // MODE near an existing entry's mode
                let m0 = nodes[g.usize_in(1, nodes.len() - 1)].mode.unwrap_or(0o644);
                let m = match g.below(4) {
                    0 => m0,
                    1 => m0 & g.below(0o10000) as u32,
                    2 => m0 | (1 << g.below(12)),
                    _ => g.below(0o10000) as u32,
                };
                let prefix = g.pick(&["", "-", "/"]);
                let text = match g.below(9) {
                    0 => format!("{m:o}"),
                    // an operator and an octal number is a mode too
                    8 => format!("={m:o}"),
                    // 'X': execute/search only for directories, or where an execute bit is already set
                    7 => g.pick(&["a+X", "a=X", "u=rwX", "u+x,go+X", "a=r,a+X", "go=X", "u=rw,a+X", "a=rX"]).to_string(),
                    k => symbolic(m, (k - 1) as u8),
                };
                vec![s("-perm"), format!("{prefix}{text}")]
            }
            3 => vec![s("-links"), format!("{}{}", g.pick(&["", "+", "-"]), g.below(4))],
            4 => {
                // inode of some entry (read back at check time): encoded as @name
                vec![s("-inum"), format!("{}@{}", g.pick(&["", "+", "-"]), g.pick(&names))]
            }
            5 => vec![s("-uid"), format!("{}{}", g.pick(&["", "+", "-"]), g.pick(&[0u32, 1, 2, 65534, 65535, 54321, 54320]))],
            6 => vec![s("-gid"), format!("{}{}", g.pick(&["", "+", "-"]), g.pick(&[0u32, 1, 2, 65534, 65533, 54321, 54322]))],
            7 => vec![s("-user"), g.pick(&["root", "daemon", "nobody", "0", "1", "54321", "65534"]).to_string()],
            8 => vec![s("-group"), g.pick(&["root", "daemon", "nogroup", "0", "54321", "65534"]).to_string()],
            9 => vec![s("-empty")], // -nouser/-nogroup are not among the tests the statement lists
            10 => vec![s("-empty")],
            11 => vec![s("-samefile"), g.pick(&names)],
            _ => vec![s("-lname"), g.pick(&["*", "reg", "l_*", "nowhere", "*e*"]).to_string()],
        };
        tests.push(Test { tokens: t });
    }
    Case { tree: TreeSpec { nodes }, follow, depth0, tests, earlier_flag: if g.chance(1, 5) { g.usize_in(1, 2) as u8 } else { 0 }, walk: g.weighted(&[2, 1, 1]) as u8 }
}

fn cmp_num(op: &str, value: u64) -> bool {
    let (kind, n) = match op.chars().next() {
        Some('+') => ('+', &op[1..]),
        Some('-') => ('-', &op[1..]),
        _ => ('=', op),
    };
    let n: u64 = n.parse().unwrap();
    match kind {
        '+' => value > n,
        '-' => value < n,
        _ => value == n,
    }
}

fn name_to_uid(s: &str) -> u32 {
    match s {
        "root" => 0,
        "daemon" => 1,
        "nobody" | "nogroup" => 65534,
        n => n.parse().unwrap(),
    }
}

fn has_passwd(id: u32) -> bool {
    matches!(id, 0 | 1 | 65534)
}

/// the parsed numeric value of a -perm operand generated above
/// Reference evaluation of a MODE operand: octal, or chmod-style symbolic clauses applied in
/// sequence to an initial mode of 0 (who-less clauses mean 'a'; '=' replaces the named classes'
/// bits, '+' adds, '-' removes; a permission of u/g/o copies that class's current rwx bits; 'X' is 'x' for
/// a directory or once the value built so far has an execute bit).
fn perm_value(text: &str, is_dir: bool) -> u32 {
    if text.chars().next().map_or(false, |c| c.is_ascii_digit()) {
        return u32::from_str_radix(text, 8).unwrap();
    }
    if let Some(digits) = text.strip_prefix(['=', '+']).filter(|d| !d.is_empty() && d.bytes().all(|b| b.is_ascii_digit())) {
        return u32::from_str_radix(digits, 8).unwrap();
    }
    let mut m = 0u32;
    for clause in text.split(',') {
        let Some(i) = clause.find(['=', '+', '-']) else { continue };
        let (who, op, rest) = (&clause[..i], clause.as_bytes()[i] as char, &clause[i + 1..]);
        let who = if who.is_empty() || who == "a" { "ugo" } else { who };
        let mut bits = 0u32;
        let mut clear = 0u32;
        for w in who.chars() {
            let (sh, sp) = match w {
                'u' => (6, 0o4000),
                'g' => (3, 0o2000),
                _ => (0, 0o1000),
            };
            clear |= (7 << sh) | sp;
            for ch in rest.chars() {
                bits |= match ch {
                    'r' => 4 << sh,
                    'w' => 2 << sh,
                    'x' => 1 << sh,
                    'X' if is_dir || m & 0o111 != 0 => 1 << sh,
                    's' if w != 'o' => sp,
                    't' if w == 'o' => sp,
                    'u' => ((m >> 6) & 7) << sh,
                    'g' => ((m >> 3) & 7) << sh,
                    'o' => (m & 7) << sh,
                    _ => 0,
                };
            }
        }
        match op {
            '=' => m = (m & !clear) | bits,
            '+' => m |= bits,
            _ => m &= !bits,
        }
    }
    m
}

fn predicate(t: &[String], e: &RefEntry, fm: FollowMode) -> bool {
    let rec = e.rec();
    match t[0].as_str() {
        "-type" => e.type_of().to_string() == t[1],
        "-xtype" => {
            let letter = match e.xrec() {
                Some(m) => RefEntry::type_letter(m),
                None => 'l', // dangling or looping link seen through the opposite rule
            };
            letter.to_string() == t[1]
        }
        "-perm" => {
            let (form, text) = match t[1].chars().next() {
                Some('-') => ('-', &t[1][1..]),
                Some('/') => ('/', &t[1][1..]),
                _ => ('=', t[1].as_str()),
            };
            let m = perm_value(text, rec.is_dir());
            let v = rec.mode() & 0o7777;
            match form {
                '-' => v & m == m,
                '/' => m == 0 || v & m != 0,
                _ => v == m,
            }
        }
        "-links" => cmp_num(&t[1], rec.nlink()),
        "-inum" => cmp_num(&t[1], rec.ino()),
        "-uid" => cmp_num(&t[1], rec.uid() as u64),
        "-gid" => cmp_num(&t[1], rec.gid() as u64),
        "-user" => rec.uid() == name_to_uid(&t[1]),
        "-group" => rec.gid() == name_to_uid(&t[1]),
        "-nouser" => !has_passwd(rec.uid()),
        "-nogroup" => !has_passwd(rec.gid()),
        "-empty" => match e.type_of() {
            'f' => rec.len() == 0,
            'd' => std::fs::read_dir(&e.path).map(|mut d| d.next().is_none()).unwrap_or(false),
            _ => false,
        },
        "-samefile" => {
            let f = &t[1];
            let fmeta = if fm != FollowMode::P { std::fs::metadata(f).or_else(|_| std::fs::symlink_metadata(f)) } else { std::fs::symlink_metadata(f) };
            match fmeta {
                Ok(fmeta) => fmeta.dev() == rec.dev() && fmeta.ino() == rec.ino(),
                Err(_) => false,
            }
        }
        "-lname" => {
            // only where the link itself is the entry
            if RefEntry::type_letter(rec) != 'l' {
                return false;
            }
            let target = std::fs::read_link(&e.path).map(|p| p.to_string_lossy().into_owned()).unwrap_or_default();
            crate::engine::expr::simple_glob(&t[1], &target, false)
        }
        other => panic!("unknown test {other}"),
    }
}

fn entry_kind(e: &RefEntry) -> &'static str {
    if e.is_link() {
        match &e.smeta {
            None => "dangling-link",
            Some(m) if m.is_dir() => "link-to-directory",
            Some(m) if m.is_file() => "link-to-file",
            Some(_) => "link-to-special",
        }
    } else {
        match RefEntry::type_letter(&e.lmeta) {
            'f' => "regular",
            'd' => "directory",
            _ => "special",
        }
    }
}

pub fn check(ctx: &mut Ctx, c: &Case) -> Outcome {
    ctx.fresh_case_dir();
    c.tree.build();
    let fm = [FollowMode::P, FollowMode::H, FollowMode::L][c.follow as usize];
    // the entries under test
    let children: Vec<String> = c.tree.nodes.iter().filter(|n| n.parent() == "c/d").map(|n| n.path.clone()).collect();
    let entries: Vec<RefEntry> = if c.depth0 {
        let mut v: Vec<String> = children.clone();
        v.sort();
        if c.walk == 0 {
            v.iter().filter_map(|p| make_entry(p, 0, fm)).collect()
        } else {
            let wo = WalkOpts { follow: fm, depth_first: c.walk == 2, ..Default::default() };
            v.iter().flat_map(|p| ref_paths(p, &wo).0).collect()
        }
    } else {
        let wo = WalkOpts { follow: fm, min_depth: 1, max_depth: 1, ..Default::default() };
        ref_paths("c/d", &wo).0
    };
    let mut selected_some = false;
    let mut rejected_some = false;
    let mut runs = 0u64;
    // single tests, then conjunctions of two tests (purity: the result of a test must not depend on
    // which other test was evaluated before it on the same entry)
    let resolve = |t: &Test| -> Vec<String> {
        let mut tokens = t.tokens.clone();
        if tokens[0] == "-inum" {
            let (pre, name) = tokens[1].split_once('@').unwrap();
            let ino = std::fs::symlink_metadata(name).map(|m| m.ino()).unwrap_or(1);
            tokens[1] = format!("{pre}{ino}");
        }
        tokens
    };
    let mut jobs: Vec<Vec<Vec<String>>> = c.tests.iter().map(|t| vec![resolve(t)]).collect();
    let xt = c.tests.iter().find(|t| t.tokens[0] == "-xtype").map(resolve).unwrap_or_else(|| vec!["-xtype".to_string(), "f".to_string()]);
    for t in c.tests.iter().take(6) {
        if t.tokens[0] != "-xtype" {
            jobs.push(vec![xt.clone(), resolve(t)]);
        }
    }
    for w2 in c.tests.windows(2).take(5) {
        jobs.push(vec![resolve(&w2[0]), resolve(&w2[1])]);
    }
    for job in &jobs {
        let expected: Vec<String> = entries.iter().filter(|e| job.iter().all(|tokens| predicate(tokens, e, fm))).map(|e| e.path.clone()).collect();
        let tokens: Vec<String> = job.iter().flatten().cloned().collect();
        let sig_name = if job.len() == 1 { job[0][0].clone() } else { format!("{}-after-{}", job[1][0], job[0][0]) };
        let mut args: Vec<String> = vec![];
        if c.earlier_flag > 0 {
            let others: Vec<&str> = ["-P", "-H", "-L"].into_iter().filter(|f| *f != fm.flag()).collect();
            args.push(others[(c.earlier_flag as usize - 1) % 2].into());
        }
        args.push(fm.flag().into());
        if c.depth0 {
            let mut v = children.clone();
            v.sort();
            args.extend(v);
            if c.walk == 0 {
                args.push("-maxdepth".into());
                args.push("0".into());
            } else {
                args.push("-sorted".into());
                if c.walk == 2 {
                    args.push("-depth".into());
                }
            }
        } else {
            args.push("c/d".into());
            args.push("-mindepth".into());
            args.push("1".into());
            args.push("-maxdepth".into());
            args.push("1".into());
            args.push("-sorted".into());
            if c.walk == 2 {
                args.push("-depth".into());
            }
        }
        args.extend(tokens.iter().cloned());
        args.push("-print0".into());
        let o = ctx.find(&args.iter().map(|s| s.as_str()).collect::<Vec<_>>());
        runs += 1;
        let desc = format!("find {}", args.iter().map(|a| format!("{a:?}")).collect::<Vec<_>>().join(" "));
        if let Some(p) = o.panic {
            return fail(format!("C13:panic:{}", p.split(": ").next().unwrap_or("?")), format!("{desc}\npanic: {p}"));
        }
        let mut got: Vec<String> = o.stdout.split(|b| *b == 0).map(|s| lossy(s)).collect();
        got.pop();
        if got != expected {
            let diff: Vec<&RefEntry> = entries.iter().filter(|e| got.contains(&e.path) != expected.contains(&e.path)).collect();
            let kinds: std::collections::BTreeSet<&str> = diff.iter().map(|e| entry_kind(e)).collect();
            let last = job.last().unwrap();
            let form = if last[0] == "-perm" {
                let op = &last[1];
                let f = if op.starts_with('-') { "-MODE" } else if op.starts_with('/') { "/MODE" } else { "MODE" };
                let sym = if op.trim_start_matches(['-', '/']).chars().next().map_or(false, |c| c.is_ascii_digit()) { "octal" } else { "symbolic" };
                format!(":{f}:{sym}")
            } else {
                String::new()
            };
            return fail(
                format!("C13:{sig_name}{form}:{}:{}:{}", fm.flag(), if c.depth0 { "depth0" } else { "deeper" }, kinds.into_iter().collect::<Vec<_>>().join("+")),
                format!("{desc}\nexpected: {expected:?}\nobserved: {got:?}\ndiffering entries: {:?}\nstderr: {:?}", diff.iter().map(|e| (&e.path, format!("{:o}", e.rec().mode()), e.rec().uid(), e.rec().gid(), e.rec().nlink())).collect::<Vec<_>>(), lossy(&o.stderr)),
            );
        }
        selected_some |= !expected.is_empty();
        rejected_some |= expected.len() < entries.len();
    }
    Pass::new(selected_some && rejected_some)
        .evals(runs)
        .class(match fm {
            FollowMode::P => "follow-P",
            FollowMode::H => "follow-H",
            FollowMode::L => "follow-L",
        })
        .class_if(c.depth0, "entries-as-starting-points")
        .class_if(c.depth0 && c.walk > 0, "starting-points-walked-to-the-bottom")
        .class_if(c.walk == 2, "under--depth")
        .sample(json!({"follow": fm.flag(), "depth0": c.depth0, "tests": c.tests.iter().map(|t| t.tokens.join(" ")).collect::<Vec<_>>()}))
        .ok()
}

// ---- exhaustive -perm over all 4096 modes -------------------------------------------

#[derive(Serialize, Deserialize, Debug, Clone)]
pub struct PermCase {
    pub mode: u32,
}

fn ensure_perm_dir() {
    if std::fs::symlink_metadata("p/7777").is_ok() {
        return;
    }
    let _ = std::fs::remove_dir_all("p");
    let mut t = TreeSpec::default();
    t.nodes.push(Node::new("p", Kind::Dir));
    for m in 0..0o10000u32 {
        t.nodes.push(Node { mode: Some(m), ..Node::new(format!("p/{m:04o}"), Kind::File) });
    }
    t.build();
}

fn check_perm(ctx: &mut Ctx, c: &PermCase) -> Outcome {
    ensure_perm_dir();
    let m = c.mode;
    let mut evals = 0u64;
    for (prefix, form) in [("", '='), ("-", '-'), ("/", '/')] {
        let expected: Vec<String> = (0..0o10000u32)
            .filter(|v| match form {
                '-' => v & m == m,
                '/' => m == 0 || v & m != 0,
                _ => *v == m,
            })
            .map(|v| format!("p/{v:04o}"))
            .collect();
        let mut reference: Option<Vec<u8>> = None;
        for (si, spelling) in [format!("{m:o}"), symbolic(m, 0), symbolic(m, 1), symbolic(m, 2), symbolic(m, 3), symbolic(m, 4), symbolic(m, 5)].iter().enumerate() {
            let op = format!("{prefix}{spelling}");
            let o = ctx.find(&["p", "-mindepth", "1", "-sorted", "-perm", &op, "-print"]);
            evals += 4096;
            if let Some(p) = o.panic {
                return fail(format!("C13:panic:{}", p.split(": ").next().unwrap_or("?")), format!("find p -perm {op}: {p}"));
            }
            if si == 0 {
                let got: Vec<String> = lossy(&o.stdout).lines().map(|s| s.to_string()).collect();
                if got != expected || o.status != 0 {
                    let wrong: Vec<&String> = got.iter().filter(|p| !expected.contains(p)).chain(expected.iter().filter(|p| !got.contains(p))).take(8).collect();
                    return fail(format!("C13:-perm:{}MODE:octal:all-modes", prefix), format!("find p -perm {op}\n{} selected, {} expected; first differing files (named by their mode): {wrong:?}\nstderr {:?}", got.len(), expected.len(), lossy(&o.stderr)));
                }
                reference = Some(o.stdout);
            } else if Some(&o.stdout) != reference.as_ref() || o.status != 0 {
                return fail(format!("C13:-perm:{}MODE:symbolic-differs-from-octal", prefix), format!("find p -perm {op}  vs  -perm {prefix}{m:o}\nsymbolic selected {} files, octal {}\nexit {} stderr {:?}", o.stdout.iter().filter(|b| **b == b'\n').count(), expected.len(), o.status, lossy(&o.stderr)));
            }
        }
    }
    Pass::new(true).evals(evals).class("perm-operand-vs-all-4096-modes").sample(json!({"operand_octal": format!("{m:o}"), "symbolic": [symbolic(m, 0), symbolic(m, 1), symbolic(m, 2), symbolic(m, 3), symbolic(m, 4), symbolic(m, 5)]})).ok()
}

fn run(w: &mut Worker) {
    w.regress::<Case>("tests", check);
    w.regress::<PermCase>("perm", check_perm);
    if w.tier == crate::engine::Tier::Thorough {
        w.exhaustive("perm", "every MODE operand 0..=07777 x {MODE,-MODE,/MODE} x {octal, 6 symbolic spellings} against all 4096 permission values", (0..0o10000u32).map(|mode| PermCase { mode }), check_perm);
    } else {
        w.random("perm", 320, (2, 4), 50, |g| PermCase { mode: if g.chance(1, 8) { g.pick(&[0u32, 0o7777, 0o4000, 0o2000, 0o1000, 0o777, 0o1, 0o7000]) } else { g.below(0o10000) as u32 } }, check_perm);
    }
    w.random("tests", w.tier.pick(24_000, 300_000), (60, 200), 800, gen_case, check);
}

fn replay(w: &mut Worker, sub: &str, v: Value) -> Outcome {
    match sub {
        "perm" => check_perm(&mut w.ctx, &decode(v)),
        _ => check(&mut w.ctx, &decode(v)),
    }
}
