//! C11 — malformed command lines are rejected before any action; never a panic.

use super::{decode, PropDef};
use crate::engine::expr::{ParseErr, Parser};
use crate::engine::fsx::{snapshot, Kind, Node, TreeSpec};
use crate::engine::proc::{find_bin, lossy, rec_bin, BinOpts, Ctx};
use crate::engine::{fail, Gen, Outcome, Pass, Worker};
use serde::{Deserialize, Serialize};
use serde_json::{json, Value};
use std::ffi::OsString;

pub static DEF: PropDef = PropDef {
    id: "C11",
    rule: "(a) grammar complement: token sequences over units {-true, -false, -print, -delete, '-exec rec {} ;', '-name x', '!', -a, -o, ',', '(', ')', a primary without its operand, an unterminated -exec, an unknown primary}: every sequence of <= 4 (thorough 5) units exhaustively, plus random sequences of <= 12 units obtained by mutating valid expressions (drop an operand, duplicate/drop an operator, unbalance a parenthesis, move '!' to the end). For every sequence that the reference recogniser (GNU token classes, DESIGN.md appendix A) classifies as a non-sentence: exit status != 0, a diagnostic on stderr, nothing on stdout, the rec recorder never ran, the file tree is unchanged (snapshot). (b) invalid operands: a table of unquestionably invalid operands per primary (-type, -xtype, -size, numeric tests, -perm, -regextype, -regex, -printf, -newerXY, -user, -group, -exec, -maxdepth, -mindepth), and words that merely contain a primary's name (-zzNAME, -xyz-NAME, -NAMEx, '-follow -NAME' as one word, for every name of the vocabulary, followed by the operand that name would take), embedded at a random position of an otherwise valid expression containing -print, -delete and -exec rec: same oracle. (b') -regex/-iregex operands whose group delimiters do not balance: every string of <= 5 (thorough 6) tokens over {a, open group, close group, .*} in emacs, posix-basic, posix-extended and sed spelling (for posix-extended only those that leave a group open even when an unmatched ')' is read as ordinary): same oracle. (c) no panic / abort: arbitrary vectors over the full vocabulary of primaries with operands drawn from valid values, near-misses and arbitrary Unicode strings (multi-byte after '%' and '\\\\', huge numbers, stray brackets, terminated but malformed bracket expressions (reversed ranges, unknown classes, classes as range ends, equivalence classes, collating symbols), dates with digits of other scripts), over a tree with entries owned by ids without passwd/group entries, fifos, sockets, dangling and looping links, far-future and pre-epoch timestamps, and entries removed by an earlier action of the same expression (-delete -ls, -delete -printf %s): in process (catch_unwind; signature = panic location) and 1 in 8 through the built binary (status must be an ordinary exit: not 101, not 134, not a signal), a third of those with stdout and/or stderr that cannot be written (/dev/full, a pipe nobody reads; death by SIGPIPE counts as ordinary there). Non-trivial = (a) a non-sentence of >= 3 units containing at least one complete primary; (b) always; (c) the vector parses and visits >= 1 entry, or contains a multi-byte operand. Distinct = distinct case JSON.",
    assumptions: &[
        "one-directional on purpose: acceptance and meaning of valid sentences is C01's subject",
        "files created by -fprint*/-fls at parse time are not counted as 'an action' (the statement lists visiting, printing, executing, deleting)",
        "shapes the statement does not decide (-exec {} + with {} as the command, several {} before +, -help/-version stop parsing) are generated for the no-panic check only",
        "a hang would show as the parent watchdog (exit 2, inconclusive), never as a violation; -printf widths are generated either below 100000 or above 20 digits so that no case needs gigabytes",
    ],
    run,
    replay,
    fuzz: Some(fuzz_one),
};

// ---------------------------------------------------------------------------
// shared
// ---------------------------------------------------------------------------

fn base_tree() -> TreeSpec {
    let mut t = TreeSpec::default();
    for (p, k) in [("c/r", Kind::Dir), ("c/r/a", Kind::File), ("c/r/b", Kind::Dir), ("c/r/b/c", Kind::File), ("c/r/x", Kind::File)] {
        t.nodes.push(Node::new(p, k));
    }
    t
}

struct RunOut {
    status: i32,
    stdout: Vec<u8>,
    stderr: Vec<u8>,
    panic: Option<String>,
    rec_ran: bool,
}

fn run_in_process(ctx: &mut Ctx, args: &[String]) -> RunOut {
    let log = ctx.root.join("rec.log");
    let _ = std::fs::remove_file(&log);
    std::env::set_var("VERIF_REC_LOG", &log);
    std::env::set_var("VERIF_REC_SCRIPT", "");
    let a: Vec<&str> = args.iter().map(|s| s.as_str()).collect();
    let o = ctx.find(&a);
    let rec_ran = std::fs::metadata(&log).map(|m| m.len() > 0).unwrap_or(false);
    RunOut { status: o.status, stdout: o.stdout, stderr: o.stderr, panic: o.panic, rec_ran }
}

fn panic_sig(p: &str) -> String {
    // "/repo/src/find/matchers/printf.rs:146: message" -> file:line without the directory prefix
    let loc = p.split(": ").next().unwrap_or("?");
    let short = loc.rsplit("/src/").next().unwrap_or(loc);
    format!("C11:panic:{short}")
}

/// the rejection oracle shared by (a) and (b)
fn must_be_rejected(ctx: &mut Ctx, args: &[String], what: &str, sig_tail: &str) -> Option<Outcome> {
    let before = snapshot("c/r");
    let o = run_in_process(ctx, args);
    let after = snapshot("c/r");
    let desc = || format!("find {args:?}\n[{what}]\nexit {} \nstdout {:?}\nstderr {:?}\nrec ran: {}\ntree changed: {}", o.status, lossy(&o.stdout), lossy(&o.stderr), o.rec_ran, before != after);
    if let Some(p) = &o.panic {
        return Some(fail(panic_sig(p), format!("{}\npanic: {p}", desc())));
    }
    let mut effects: Vec<&str> = vec![];
    if before != after {
        effects.push("changed the tree");
    }
    if o.rec_ran {
        effects.push("executed a command");
    }
    if !o.stdout.is_empty() {
        effects.push("printed files");
    }
    if o.status == 0 {
        return Some(fail(format!("C11:malformed-command-line-accepted:{sig_tail}"), format!("{}\neffects: {effects:?}", desc())));
    }
    if !effects.is_empty() {
        return Some(fail(format!("C11:acted-before-rejecting:{sig_tail}"), format!("{}\neffects: {effects:?}", desc())));
    }
    if o.stderr.is_empty() {
        return Some(fail(format!("C11:rejected-without-diagnostic:{sig_tail}"), desc()));
    }
    None
}

// ---------------------------------------------------------------------------
// (a) grammar complement
// ---------------------------------------------------------------------------

#[derive(Serialize, Deserialize, Debug, Clone)]
pub struct SeqCase {
    /// indices into UNITS
    pub units: Vec<u8>,
}

const UNIT_NAMES: &[&str] = &["T", "F", "print", "delete", "exec", "name", "!", "-a", "-o", ",", "(", ")", "name-without-operand", "exec-unterminated", "unknown-primary", "-not", "-and", "-or", "printf-ok", "word"];

fn unit_tokens(u: u8) -> Vec<String> {
    let rec = rec_bin().to_string_lossy().into_owned();
    let s = |x: &str| x.to_string();
    match u {
        0 => vec![s("-true")],
        1 => vec![s("-false")],
        2 => vec![s("-print")],
        3 => vec![s("-delete")],
        4 => vec![s("-exec"), rec, s("{}"), s(";")],
        5 => vec![s("-name"), s("x")],
        6 => vec![s("!")],
        7 => vec![s("-a")],
        8 => vec![s("-o")],
        9 => vec![s(",")],
        10 => vec![s("(")],
        11 => vec![s(")")],
        12 => vec![s("-name")],
        13 => vec![s("-exec"), rec, s("{}")],
        14 => vec![s("-bogus-primary")],
        15 => vec![s("-not")],
        16 => vec![s("-and")],
        17 => vec![s("-or")],
        18 => vec![s("-printf"), s("%p\\n")],
        _ => vec![s("word")],
    }
}

/// classification by the reference grammar
#[derive(Debug, PartialEq, Eq)]
enum Class {
    Sentence,
    NonSentence(&'static str),
    Undecided,
}

fn classify_tokens(tokens: &[String]) -> Class {
    // cmdline := path* expr?   (a path is a word that is not an expression-start token)
    let is_start = |w: &str| (w.len() > 1 && w.starts_with('-')) || matches!(w, "(" | ")" | "!" | ",");
    let mut i = 0;
    while i < tokens.len() && !is_start(&tokens[i]) {
        i += 1;
    }
    let expr = &tokens[i..];
    if expr.is_empty() {
        return Class::Sentence;
    }
    match Parser::new(expr).parse_all() {
        Ok(_) => Class::Sentence,
        Err(ParseErr::NotSentence(why)) => Class::NonSentence(why),
        Err(ParseErr::Undecided(_)) => Class::Undecided,
    }
}

fn shape_of(units: &[u8]) -> String {
    // adjacent-operator shape for the signature (root-cause oriented)
    let is_bin = |u: u8| matches!(u, 7 | 8 | 9 | 16 | 17);
    let is_not = |u: u8| matches!(u, 6 | 15);
    for w in units.windows(2) {
        if is_bin(w[0]) && is_bin(w[1]) {
            return "binary-operator-after-binary-operator".into();
        }
        if is_not(w[0]) && is_bin(w[1]) {
            return "not-before-binary-operator".into();
        }
    }
    if let Some(f) = units.first() {
        if matches!(f, 9 | 11) {
            return "comma-or-close-parenthesis-first".into();
        }
    }
    if units.contains(&12) || units.contains(&13) {
        return "primary-without-operand-or-terminator".into();
    }
    if units.contains(&14) || units.contains(&19) {
        return "unknown-primary".into();
    }
    if units.contains(&10) || units.contains(&11) {
        return "parentheses".into();
    }
    "operator-placement".into()
}

fn check_seq(ctx: &mut Ctx, c: &SeqCase) -> Outcome {
    ctx.fresh_case_dir();
    base_tree().build();
    let mut tokens: Vec<String> = vec![];
    for u in &c.units {
        tokens.extend(unit_tokens(*u));
    }
    let class = classify_tokens(&tokens);
    let mut args = vec!["c/r".to_string()];
    args.extend(tokens.iter().cloned());
    match class {
        Class::NonSentence(why) => {
            if let Some(f) = must_be_rejected(ctx, &args, why, &shape_of(&c.units)) {
                return f;
            }
            let complete_primary = c.units.iter().any(|u| matches!(u, 0 | 1 | 2 | 3 | 4 | 5 | 18));
            Pass::new(c.units.len() >= 3 && complete_primary)
                .class("non-sentence-rejected")
                .class_if(c.units.contains(&3) || c.units.contains(&4), "non-sentence-with-delete-or-exec")
                .sample(json!({"cmdline": format!("find {}", args.join(" ")), "why": why}))
                .ok()
        }
        _ => {
            // sentences / undecided shapes: only "no panic"
            let o = run_in_process(ctx, &args);
            if let Some(p) = o.panic {
                return fail(panic_sig(&p), format!("find {args:?}\npanic: {p}"));
            }
            Pass::new(false).class(if class == Class::Sentence { "sentence-(not-asserted)" } else { "undecided-shape-(not-asserted)" }).ok()
        }
    }
}

fn gen_seq(g: &mut Gen) -> SeqCase {
    // start from a valid expression and mutate
    fn valid(g: &mut Gen, depth: usize, out: &mut Vec<u8>) {
        match if depth == 0 { 0 } else { g.weighted(&[5, 2, 3, 3, 2, 2]) } {
            0 => out.push(g.pick(&[0u8, 1, 2, 3, 4, 5, 18, 2, 5])),
            1 => {
                out.push(g.pick(&[6u8, 15]));
                valid(g, depth - 1, out);
            }
            2 => {
                valid(g, depth - 1, out);
                if g.chance(2, 3) {
                    out.push(g.pick(&[7u8, 16]));
                }
                valid(g, depth - 1, out);
            }
            3 => {
                valid(g, depth - 1, out);
                out.push(g.pick(&[8u8, 17]));
                valid(g, depth - 1, out);
            }
            4 => {
                valid(g, depth - 1, out);
                out.push(9);
                valid(g, depth - 1, out);
            }
            _ => {
                out.push(10);
                valid(g, depth - 1, out);
                out.push(11);
            }
        }
    }
    let mut u = vec![];
    let d = g.usize_in(1, 3);
    valid(g, d, &mut u);
    // mutations
    for _ in 0..g.usize_in(1, 2) {
        if u.is_empty() {
            break;
        }
        let k = g.below(u.len() as u64) as usize;
        match g.below(8) {
            0 => {
                u.remove(k);
            }
            1 => u.insert(k, g.pick(&[7u8, 8, 9, 16, 17])),
            2 => u.insert(k, g.pick(&[6u8, 15])),
            3 => u.insert(k, g.pick(&[10u8, 11])),
            4 => u[k] = g.pick(&[12u8, 13, 14, 19]),
            5 => u.push(g.pick(&[6u8, 7, 8, 9, 10, 12, 13])),
            6 => u.insert(0, g.pick(&[9u8, 11, 7, 8])),
            _ => {
                let x = u[k];
                u.insert(k, x);
            }
        }
    }
    u.truncate(12);
    SeqCase { units: u }
}

// ---------------------------------------------------------------------------
// (b) invalid operands
// ---------------------------------------------------------------------------

#[derive(Serialize, Deserialize, Debug, Clone)]
pub struct OperandCase {
    /// index into BAD_OPERANDS
    pub which: usize,
    /// 0 first, 1 between -print and -delete, 2 last, 3 inside parentheses, 4 after -o (unreachable at run time)
    pub position: u8,
}

/// (primary words..., class label): every one is an invalid command line by itself
fn bad_operands() -> Vec<(Vec<String>, &'static str)> {
    let s = |x: &str| x.to_string();
    let mut v: Vec<(Vec<String>, &'static str)> = vec![];
    let mut add = |p: &str, ops: &[&str], label: &'static str| {
        for o in ops {
            v.push((vec![s(p), s(o)], label));
        }
    };
    add("-type", &["x", "", "ff", "F", "fd", "-", "dir"], "-type");
    add("-xtype", &["x", "", "ll", "0"], "-xtype");
    add("-size", &["5x", "k", "abc5k", "5kk", "", "+", "-", "1.5k", "5 k", "0x10", "99999999999999999999999k", "++5", "5k5"], "-size");
    for p in ["-links", "-inum", "-uid", "-gid", "-mtime", "-atime", "-ctime", "-mmin", "-amin", "-cmin"] {
        add(p, &["+", "1.5", "--1", "1e3", "18446744073709551616", "", "x", "5x", "+-1", "0x1"], "numeric-test");
    }
    add("-perm", &["8", "77777", "u=z", "rwx", "", "-", "/", "u=r,", ",u=r", "a+r,,g=w", "u=r g=w", "789"], "-perm");
    add("-regextype", &["foo", "", "POSIX-BASIC", "emacs "], "-regextype");
    add("-regex", &["\\(", "[a", "\\)"], "-regex");
    // (second entry: formerly "[[:alpha:]", which is a well-formed bracket expression in the emacs
    // syntax - it has no character classes - and was wrongly listed; see DESIGN 6.4)
    add("-iregex", &["\\(", "[a"], "-regex");
    add("-printf", &["%", "abc%", "%-5", "%A", "abc\\", "%5", "%-", "\\", "%T", "%C"], "-printf");
    add("-maxdepth", &["-1", "x", "", "1.5"], "-maxdepth");
    add("-mindepth", &["-1", "x", "", "2x"], "-mindepth");
    add("-user", &["", "no-such-user-xyz", "-1", "1.5"], "-user");
    add("-group", &["", "no-such-group-xyz", "-1"], "-group");
    add("-newer", &["c/missing-ref"], "-newer");
    add("-anewer", &["c/missing-ref"], "-newer");
    add("-samefile", &["c/missing-ref"], "-samefile");
    for p in ["-newerxy", "-neweraz", "-newerXY", "-newermmx", "-neweramm", "-newerBt", "-newer1", "-newerm", "-newerta"] {
        v.push((vec![s(p), s("c/ref")], "-newerXY"));
    }
    // (an empty date is documented by the implementation as "today 00:00" and pinned by its suite: not listed)
    for d in ["not a date", "jan 40, 2020", "2020-13-45", "jan 01, 2020 25:00:00"] {
        v.push((vec![s("-newermt"), s(d)], "-newerXt-date"));
    }
    v.push((vec![s("-neweram"), s("c/missing-ref")], "-newerXY"));
    let rec = rec_bin().to_string_lossy().into_owned();
    v.push((vec![s("-exec")], "-exec"));
    v.push((vec![s("-exec"), s(";")], "-exec"));
    v.push((vec![s("-exec"), rec.clone(), s("{}")], "-exec"));
    v.push((vec![s("-execdir"), rec.clone()], "-exec"));
    v.push((vec![s("-exec"), s("+")], "-exec"));
    v.push((vec![s("-execdir"), s(";")], "-exec"));
    v.push((vec![s("-fprintf"), s("c/out1")], "-fprintf"));
    v.push((vec![s("-fprintf")], "-fprintf"));
    v.push((vec![s("-fprint")], "missing-operand"));
    v.push((vec![s("-fls")], "missing-operand"));
    v.push((vec![s("-name")], "missing-operand"));
    v.push((vec![s("-files0-from")], "missing-operand"));
    v.push((vec![s("-files0-from"), s("c/missing-list")], "-files0-from"));
    // words that are not primaries although a primary's name is part of them; the operand that the
    // primary would take follows, so that a parser that recognises the embedded name accepts the line
    for voc in VOC {
        let operand: Vec<String> = voc
            .ops
            .chars()
            .map(|k| match k {
                'g' => "*", 'r' => ".*", 't' => "f", 'n' => "1", 'z' => "1k", 'm' => "644", 'F' => "c/ref", 'f' => "%p", 'D' => "jan 01, 2025", 'T' => "emacs", 'u' => "root", 'G' => "root", _ => "1",
            })
            .map(s)
            .collect();
        for word in [format!("-zz{}", &voc.name[1..]), format!("-xyz{}", voc.name), format!("{}x", voc.name), format!("-follow {}", voc.name)] {
            let mut e = vec![word];
            e.extend(operand.iter().cloned());
            v.push((e, "unknown-primary"));
        }
    }
    // (appended: the table is indexed by position in saved cases)
    // a user/group operand is a name or a string of digits; a mode is octal digits or a symbolic
    // mode, and neither has blanks
    for o in ["+0", " 0", "0 ", "+1000"] {
        v.push((vec![s("-user"), s(o)], "-user"));
        v.push((vec![s("-group"), s(o)], "-group"));
    }
    for o in [" 644", "644 ", "/ 1", "- 644", "-6 44"] {
        v.push((vec![s("-perm"), s(o)], "-perm"));
    }
    // an unterminated bracket expression in the syntaxes that have character classes
    for t in ["posix-basic", "posix-extended", "grep", "sed"] {
        for pat in ["[[:alpha:]", "x[a[:digit:]"] {
            v.push((vec![s("-regextype"), s(t), s("-regex"), s(pat)], "-regex"));
        }
    }
    v
}

fn check_operand(ctx: &mut Ctx, c: &OperandCase) -> Outcome {
    let table = bad_operands();
    let (bad, label) = &table[c.which % table.len()];
    ctx.fresh_case_dir();
    base_tree().build();
    std::fs::write("c/ref", b"x").unwrap();
    let rec = rec_bin().to_string_lossy().into_owned();
    let s = |x: &str| x.to_string();
    let exec: Vec<String> = vec![s("-exec"), rec, s("{}"), s(";")];
    // a primary that lacks its operand can only stand at the very end (otherwise the next word is its operand)
    let needs_end = bad.len() == 1 || (bad[0].starts_with("-exec") && bad.last().map(|l| l != ";").unwrap_or(false)) || (bad[0] == "-fprintf" && bad.len() == 2);
    let position = if needs_end { 2 } else { c.position };
    let mut args = vec![s("c/r")];
    match position {
        0 => {
            args.extend(bad.iter().cloned());
            args.push(s("-print"));
            args.push(s("-delete"));
            args.extend(exec);
        }
        1 => {
            args.push(s("-print"));
            args.extend(bad.iter().cloned());
            args.push(s("-delete"));
            args.extend(exec);
        }
        3 => {
            args.push(s("-print"));
            args.push(s("("));
            args.extend(exec);
            args.extend(bad.iter().cloned());
            args.push(s(")"));
            args.push(s("-delete"));
        }
        4 => {
            args.push(s("-print"));
            args.extend(exec);
            args.push(s("-delete"));
            args.push(s("-o"));
            args.extend(bad.iter().cloned());
        }
        _ => {
            args.push(s("-print"));
            args.push(s("-delete"));
            args.extend(exec);
            args.extend(bad.iter().cloned());
        }
    }
    let sig_tail = if *label == "unknown-primary" {
        // keyed by how the word relates to a real name, not by the word
        let w = &bad[0];
        let newer_xy = |t: &str| t.len() >= 8 && t[..t.len() - 2].ends_with("-newer") && "aBcm".contains(&t[t.len() - 2..t.len() - 1]) && "aBcmt".contains(&t[t.len() - 1..]);
        let shape = if w.ends_with('x') { "name-with-a-letter-appended" } else if newer_xy(w) { "text-before-newerXY" } else { "text-before-a-name" };
        format!("unknown-primary:{shape}")
    } else {
        format!("invalid-operand:{label}:{}", bad.get(1).map(|x| x.as_str()).unwrap_or("<none>"))
    };
    if let Some(f) = must_be_rejected(ctx, &args, if *label == "unknown-primary" { "unknown primary" } else { "invalid operand" }, &sig_tail) {
        return f;
    }
    Pass::new(true).class("invalid-operand-rejected").class(label).sample(json!({"cmdline": format!("find {}", args.join(" "))})).ok()
}

/// (b') -regex operands whose group delimiters do not balance
#[derive(Serialize, Deserialize, Debug, Clone)]
pub struct ParenCase {
    /// 0 'a', 1 open group, 2 close group, 3 '.*'
    pub toks: Vec<u8>,
    /// 0 default (emacs), 1 posix-basic, 2 posix-extended, 3 sed
    pub syntax: u8,
    pub iregex: bool,
}

/// None: balanced (not an invalid operand on this account)
fn unbalanced_regex(c: &ParenCase) -> Option<String> {
    let ere = c.syntax == 2;
    let mut strict_bad = false;
    let (mut depth, mut lenient_depth) = (0i32, 0i32);
    let mut s = String::new();
    for t in &c.toks {
        match t {
            0 => s.push('a'),
            1 => {
                s.push_str(if ere { "(" } else { "\\(" });
                depth += 1;
                lenient_depth += 1;
            }
            2 => {
                s.push_str(if ere { ")" } else { "\\)" });
                depth -= 1;
                if depth < 0 {
                    strict_bad = true;
                    depth = 0;
                }
                // an unmatched ')' may be an ordinary character in an extended expression
                if lenient_depth > 0 {
                    lenient_depth -= 1;
                }
            }
            _ => s.push_str(".*"),
        }
    }
    let invalid = if ere { lenient_depth > 0 } else { strict_bad || depth > 0 };
    invalid.then_some(s)
}

fn check_paren(ctx: &mut Ctx, c: &ParenCase) -> Outcome {
    let Some(pattern) = unbalanced_regex(c) else { return Pass::discard("group delimiters balance") };
    ctx.fresh_case_dir();
    base_tree().build();
    let rec = rec_bin().to_string_lossy().into_owned();
    let s = |x: &str| x.to_string();
    let mut args = vec![s("c/r"), s("-print")];
    let ty = ["", "posix-basic", "posix-extended", "sed"][c.syntax as usize % 4];
    if !ty.is_empty() {
        args.push(s("-regextype"));
        args.push(s(ty));
    }
    args.push(s(if c.iregex { "-iregex" } else { "-regex" }));
    args.push(pattern.clone());
    args.extend([s("-delete"), s("-exec"), rec, s("{}"), s(";")]);
    let closes_first = {
        let mut d = 0i32;
        c.toks.iter().any(|t| {
            d += match t {
                1 => 1,
                2 => -1,
                _ => 0,
            };
            d < 0
        })
    };
    let shape = if closes_first && c.toks.iter().filter(|t| **t == 1).count() == c.toks.iter().filter(|t| **t == 2).count() { "close-before-open" } else if closes_first { "stray-close" } else { "unclosed-group" };
    if let Some(f) = must_be_rejected(ctx, &args, "invalid operand", &format!("invalid-operand:-regex:unbalanced-group:{shape}:{}", if ty.is_empty() { "emacs" } else { ty })) {
        return f;
    }
    Pass::new(c.toks.len() >= 3).class("invalid-operand-rejected").class("regex-unbalanced-group").class(shape).sample(json!({"cmdline": format!("find {}", args.join(" "))})).ok()
}

// ---------------------------------------------------------------------------
// (c) no panic
// ---------------------------------------------------------------------------

#[derive(Serialize, Deserialize, Debug, Clone)]
pub struct VecCase {
    pub flags: Vec<String>,
    pub roots: Vec<String>,
    pub tokens: Vec<String>,
    pub binary: bool,
    /// (binary runs only) the token at this index is replaced by bytes that are not valid UTF-8
    #[serde(default)]
    pub raw_bytes_at: Option<usize>,
    /// (binary runs only) low nibble: stdout, high nibble: stderr; 0 captured, 1 /dev/full (writes
    /// fail with ENOSPC), 2 a pipe nobody reads (EPIPE)
    #[serde(default)]
    pub sinks: u8,
}

const NASTY: &[&str] = &[
    "", "é", "%é", "\\é", "日本", "𝄞", "%", "%%", "\\", "\\1", "\\12", "\\12é", "\\0日", "%5", "%-5é", "%99999999999999999999999d", "%9999999999G", "%70000p", "%20000p", "%A", "%Aé", "%T@", "%C+", "[", "[[", "[[:", "[[:alpha:", "[[.", "[a-", "[!", "]", "*[", "**", "\\(", "\\)", "(", ")", "{", "}", "{}", "+", ";", ",", "!", "-", "--", "-1", "+1", "0", "1", "00", "18446744073709551615", "18446744073709551616", "99999999999999999999999999", "-0", "+0", "1.5", "1e3", "5k", "5kk", "k", "abc5k", "5x", "-5c", "+5G", "9999999999G", "u=r", "u=rwx,g=rx,o=", "7777", "77777", "-7777", "a+rwxst", "u=z", "jan 01, 2025", "jan 01, 2025 00:00:01", "j\u{00e4}n 01, 2025", "jan ０１, 2025", "not a date", "x", "a b", "a\nb", "\t", " ", "emacs", "posix-extended", "sed", "foo", "f", "d", "l", "p", "s", "b", "c", "D", "ff", "root", "nobody", "54321", "no-such-user", "\u{202e}abc", "\u{0}",
];

struct Voc {
    name: &'static str,
    /// operand kinds: 'g' glob, 'r' regex, 't' type letter, 'n' number, 'z' size, 'm' perm, 'F' file (safe list), 'f' printf format, 'D' date or file, 'T' regextype, 'u' user, 'G' group, 'd' depth
    ops: &'static str,
}

const VOC: &[Voc] = &[
    Voc { name: "-true", ops: "" }, Voc { name: "-false", ops: "" }, Voc { name: "-print", ops: "" }, Voc { name: "-print0", ops: "" }, Voc { name: "-ls", ops: "" }, Voc { name: "-delete", ops: "" }, Voc { name: "-prune", ops: "" }, Voc { name: "-quit", ops: "" },
    Voc { name: "-empty", ops: "" }, Voc { name: "-readable", ops: "" }, Voc { name: "-writable", ops: "" }, Voc { name: "-executable", ops: "" }, Voc { name: "-nouser", ops: "" }, Voc { name: "-nogroup", ops: "" },
    Voc { name: "-depth", ops: "" }, Voc { name: "-d", ops: "" }, Voc { name: "-follow", ops: "" }, Voc { name: "-daystart", ops: "" }, Voc { name: "-noleaf", ops: "" }, Voc { name: "-mount", ops: "" }, Voc { name: "-xdev", ops: "" }, Voc { name: "-sorted", ops: "" },
    Voc { name: "-name", ops: "g" }, Voc { name: "-iname", ops: "g" }, Voc { name: "-lname", ops: "g" }, Voc { name: "-ilname", ops: "g" }, Voc { name: "-path", ops: "g" }, Voc { name: "-ipath", ops: "g" }, Voc { name: "-wholename", ops: "g" }, Voc { name: "-iwholename", ops: "g" },
    Voc { name: "-regex", ops: "r" }, Voc { name: "-iregex", ops: "r" }, Voc { name: "-regextype", ops: "T" },
    Voc { name: "-type", ops: "t" }, Voc { name: "-xtype", ops: "t" }, Voc { name: "-fstype", ops: "g" },
    Voc { name: "-size", ops: "z" }, Voc { name: "-links", ops: "n" }, Voc { name: "-inum", ops: "n" }, Voc { name: "-uid", ops: "n" }, Voc { name: "-gid", ops: "n" },
    Voc { name: "-mtime", ops: "n" }, Voc { name: "-atime", ops: "n" }, Voc { name: "-ctime", ops: "n" }, Voc { name: "-mmin", ops: "n" }, Voc { name: "-amin", ops: "n" }, Voc { name: "-cmin", ops: "n" },
    Voc { name: "-perm", ops: "m" }, Voc { name: "-user", ops: "u" }, Voc { name: "-group", ops: "G" },
    Voc { name: "-newer", ops: "F" }, Voc { name: "-anewer", ops: "F" }, Voc { name: "-cnewer", ops: "F" }, Voc { name: "-samefile", ops: "F" },
    Voc { name: "-neweram", ops: "F" }, Voc { name: "-newercc", ops: "F" }, Voc { name: "-newermt", ops: "D" }, Voc { name: "-newerat", ops: "D" }, Voc { name: "-newerct", ops: "D" }, Voc { name: "-newerBm", ops: "F" },
    Voc { name: "-printf", ops: "f" }, Voc { name: "-fprint", ops: "F" }, Voc { name: "-fprint0", ops: "F" }, Voc { name: "-fls", ops: "F" }, Voc { name: "-fprintf", ops: "Ff" },
    Voc { name: "-maxdepth", ops: "d" }, Voc { name: "-mindepth", ops: "d" }, Voc { name: "-files0-from", ops: "F" },
];

/// a date operand in the implementation's "mon dd, yyyy hh:mm:ss" shape (parts optional) whose
/// digits are, here and there, decimal digits of another script, and whose values may be out of range
fn gen_date_nearmiss(g: &mut Gen) -> String {
    let digit = |g: &mut Gen, d: u32| -> char {
        match g.weighted(&[8, 1, 1, 1]) {
            0 => char::from_digit(d, 10).unwrap(),
            1 => char::from_u32(0x0660 + d).unwrap(), // Arabic-Indic
            2 => char::from_u32(0xFF10 + d).unwrap(), // fullwidth
            _ => char::from_u32(0x0966 + d).unwrap(), // Devanagari
        }
    };
    let num = |g: &mut Gen, n: u32, width: usize| -> String {
        let t = format!("{n:0width$}");
        t.chars().map(|c| digit(g, c.to_digit(10).unwrap())).collect()
    };
    let mut s = String::new();
    if g.chance(5, 6) {
        s.push_str(g.pick(&["jan", "feb", "dec", "Jan", "xyz", "j\u{e4}n", "日本語", "١٢٣"]));
        s.push(' ');
        let day = g.pick(&[1u32, 9, 28, 29, 30, 31, 32, 0, 99]);
        s.push_str(&num(g, day, 2));
    }
    if g.chance(5, 6) {
        s.push_str(", ");
        let year = g.pick(&[2025u32, 1970, 1969, 0, 1, 9999, 1234, 2024]);
        s.push_str(&num(g, year, 4));
    }
    if g.chance(1, 2) {
        s.push(' ');
        let (h, m, sec) = (g.pick(&[0u32, 23, 24, 12, 99]), g.pick(&[0u32, 59, 60]), g.pick(&[0u32, 1, 59, 60, 61]));
        s.push_str(&format!("{}:{}:{}", num(g, h, 2), num(g, m, 2), num(g, sec, 2)));
    }
    s
}

/// a bracket expression that is terminated but odd inside (reversed ranges, unknown classes, a class
/// as a range end, equivalence classes and collating symbols, stray '!' '^' '-' ']' '\\'), with optional
/// text around it: patterns that a translation to another pattern language may get wrong
fn gen_bracket_soup(g: &mut Gen) -> String {
    let mut s = String::new();
    s.push_str(g.pick(&["", "", "x", "*", "?", "\\"]));
    for _ in 0..g.usize_in(1, 2) {
        s.push('[');
        s.push_str(g.pick(&["", "", "!", "^", "]", "!]", "^]"]));
        for _ in 0..g.usize_in(0, 4) {
            s.push_str(g.pick(&["a", "z", "0", "9", "-", "-", "!", "^", "[", "\\", ".", "*", "é", "z-a", "9-0", "a-z", "--!", "!--", "a-", "-a", "[:alpha:]", "[:foo:]", "[:", ":]", "[=a=]", "[=", "[.a.]", "[.-.]", "[.hyphen.]", "[.", "a-[:alpha:]", "[:alpha:]-z", "a-c-e"]));
        }
        s.push(']');
    }
    s.push_str(g.pick(&["", "", "y", "*", "]", "["]));
    s
}

fn gen_operand(g: &mut Gen, kind: char) -> String {
    let valid: &[&str] = match kind {
        'g' => &["*", "a*", "?", "[ab]", "x", "*.c", "[[:alpha:]]*", "\\*", "c/r/*", "no*where"],
        'r' => &[".*", ".*/a", ".*\\(a\\|b\\)", "c/r/[ab]*", ".*/a+", "x\\{1,2\\}"],
        't' => &["f", "d", "l", "p", "s", "b", "c"],
        'n' => &["0", "1", "+1", "-1", "2", "+0", "-5", "100", "54321"],
        'z' => &["0", "1", "+1k", "-1k", "5c", "2w", "1M", "+0G", "10b"],
        'm' => &["644", "-644", "/222", "u=rw", "-u=r,g=r", "/a+x", "0", "7777", "u+s,g+s,o+t", "=755", "-=644", "/+111"],
        'F' => &["c/ref", "c/out1", "c/out2", "c/r/a", "c/r", "c/missing"],
        'f' => &["%p\\n", "%f %s %m\\n", "%-20p|%5d\\n", "%y%Y %l\\n", "%h/%f\\0", "%i %n %U %G %u %g\\n", "%a %t %c %TY\\n", "%M %b %k %S %D %F\\n", "%H %P\\n", "plain", "%%", "\\101\\n"],
        'D' => &["jan 01, 2025", "jan 01, 2025 00:00:01", "dec 31, 1999 23:59:59"],
        'T' => &["emacs", "grep", "posix-basic", "posix-extended", "ed", "sed"],
        'u' => &["root", "0", "nobody", "65534"],
        'G' => &["root", "0", "nogroup", "65534"],
        _ => &["0", "1", "2", "5"],
    };
    match g.weighted(&[5, 4]) {
        0 => g.pick(valid).to_string(),
        _ => {
            // near-miss or arbitrary text; file operands stay inside the sandbox
            if kind == 'F' {
                g.pick(&["c/ref", "c/missing", "c/out1", "c/r/lnk_dangling", "c/r/lnk_loop"]).to_string()
            } else if kind == 'D' && g.bool() {
                gen_date_nearmiss(g)
            } else if (kind == 'g' || kind == 'r') && g.chance(2, 5) {
                gen_bracket_soup(g)
            } else {
                let mut s = String::new();
                for _ in 0..g.usize_in(1, 3) {
                    s.push_str(g.pick(NASTY));
                }
                if s.contains('\0') {
                    s = s.replace('\0', "");
                }
                s
            }
        }
    }
}

/// a well-formed expression (primaries joined by optional operators, balanced parentheses) whose
/// operands are mostly valid: such vectors get past the parser, so the panic search reaches the
/// evaluation of every primary on the odd entries of the tree
fn gen_wellformed(g: &mut Gen, rec: &str, depth: usize, out: &mut Vec<String>) {
    let n = g.usize_in(1, 4);
    for i in 0..n {
        if i > 0 {
            match g.below(5) {
                0 => out.push("-o".into()),
                1 => out.push("-a".into()),
                2 => out.push(",".into()),
                _ => {}
            }
        }
        if g.chance(1, 6) {
            out.push("!".into());
        }
        if depth > 0 && g.chance(1, 6) {
            out.push("(".into());
            gen_wellformed(g, rec, depth - 1, out);
            out.push(")".into());
            continue;
        }
        if g.chance(1, 8) {
            out.push(g.pick(&["-exec", "-execdir"]).to_string());
            out.push(g.pick(&[rec, "true", "false", "no-such-command-xyz"]).to_string());
            for _ in 0..g.usize_in(0, 2) {
                out.push(g.pick(&["x{}y", "é", "", "a b", "{"]).to_string());
            }
            if g.bool() {
                out.push("{}".into());
                out.push("+".into());
            } else {
                out.push("{}".into());
                out.push(";".into());
            }
            continue;
        }
        let v = &VOC[g.below(VOC.len() as u64) as usize];
        if v.name == "-files0-from" || v.name == "-newerBm" {
            out.push("-true".into());
            continue;
        }
        out.push(v.name.to_string());
        for k in v.ops.chars() {
            // mostly valid operands: the point is to get evaluated
            let valid_heavy = g.chance(5, 6);
            let mut op = gen_operand(g, k);
            if valid_heavy {
                for _ in 0..4 {
                    if op.is_ascii() && !op.is_empty() {
                        break;
                    }
                    op = gen_operand(g, k);
                }
            }
            out.push(op);
        }
    }
}

fn gen_vec(g: &mut Gen) -> VecCase {
    let rec = rec_bin().to_string_lossy().into_owned();
    let mut tokens: Vec<String> = vec![];
    if g.chance(3, 5) {
        gen_wellformed(g, &rec, 2, &mut tokens);
        let flags = match g.below(5) {
            0 => vec!["-L".to_string()],
            1 => vec!["-H".to_string()],
            _ => vec![],
        };
        let roots = match g.below(6) {
            0 => vec!["c/r".to_string(), "c/missing".to_string()],
            1 => vec!["c/r/lnk_dir".to_string(), "c/r/odd".to_string()],
            _ => vec!["c/r".to_string()],
        };
        let binary = g.chance(1, 10);
        return VecCase { flags, roots, tokens, binary, raw_bytes_at: None, sinks: 0 };
    }
    let n = g.usize_in(0, 8);
    for _ in 0..n {
        match g.weighted(&[12, 3, 2, 2, 1]) {
            0 => {
                let v = &VOC[g.below(VOC.len() as u64) as usize];
                tokens.push(v.name.to_string());
                for k in v.ops.chars() {
                    // sometimes leave the operand out (only matters at the end; elsewhere the next word is taken)
                    if g.chance(1, 15) {
                        continue;
                    }
                    tokens.push(gen_operand(g, k));
                }
            }
            1 => tokens.push(g.pick(&["!", "-not", "-a", "-and", "-o", "-or", ","]).to_string()),
            2 => tokens.push(g.pick(&["(", ")"]).to_string()),
            3 => {
                // -exec / -execdir with an allow-listed command and arbitrary arguments
                tokens.push(g.pick(&["-exec", "-execdir"]).to_string());
                tokens.push(g.pick(&[rec.as_str(), "true", "false", "no-such-command-xyz"]).to_string());
                for _ in 0..g.usize_in(0, 3) {
                    tokens.push(g.pick(&["{}", "x{}y", "{}{}", "é", "", "a b", "{", "+", "-print"]).to_string());
                }
                match g.below(5) {
                    0 => {}
                    1 | 2 => tokens.push(";".into()),
                    _ => {
                        tokens.push("{}".into());
                        tokens.push("+".into());
                    }
                }
            }
            _ => tokens.push(g.pick(&["-bogus", "word", "-", "--", "-newerxy", "-newermmx", "-H", "-L", "-O3", "+", ";", "{}", "-help", "--help", "-version", "--version"]).to_string()),
        }
    }
    let flags = match g.below(6) {
        0 => vec!["-L".to_string()],
        1 => vec!["-H".to_string()],
        2 => vec!["-P".to_string(), "-O2".to_string()],
        3 => vec!["--".to_string()],
        _ => vec![],
    };
    let roots = match g.below(8) {
        0 => vec![],
        1 => vec!["c/r".to_string(), "c/missing".to_string()],
        2 => vec!["c/r/lnk_dir".to_string()],
        3 => vec!["c/r/".to_string(), "c/r/odd".to_string()],
        _ => vec!["c/r".to_string()],
    };
    let binary = g.chance(1, 8);
    // (not in front of an operand that looks like an absolute path, e.g. "-perm /222": the lexical
    // sandbox guard identifies pattern operands by the primary before them)
    let raw_bytes_at = if binary && !tokens.is_empty() && g.chance(1, 4) { Some(g.below(tokens.len() as u64) as usize).filter(|k| tokens.get(k + 1).map_or(true, |n| !n.starts_with('/'))) } else { None };
    let sinks = if binary && g.chance(1, 3) { (g.below(3) as u8) | ((g.below(3) as u8) << 4) } else { 0 };
    VecCase { flags, roots, tokens, binary, raw_bytes_at, sinks }
}

fn weird_tree() -> TreeSpec {
    let mut t = TreeSpec::default();
    let mut add = |p: &str, k: Kind, owner: Option<(u32, u32)>, mtime: Option<(i64, u32)>, mode: Option<u32>, size: u64| {
        let mut n = Node::new(p, k);
        n.owner = owner;
        n.mtime = mtime;
        n.atime = mtime;
        n.mode = mode;
        n.size = size;
        t.nodes.push(n);
    };
    add("c/r", Kind::Dir, None, None, None, 0);
    add("c/r/a", Kind::File, None, None, None, 3);
    add("c/r/b", Kind::Dir, None, None, None, 0);
    add("c/r/b/c", Kind::File, Some((54321, 54321)), None, Some(0o4755), 1024);
    add("c/r/odd", Kind::Dir, Some((54321, 1)), Some((-86_400 * 365 * 30, 0)), Some(0o1777), 0);
    add("c/r/odd/future", Kind::File, Some((1, 54321)), Some((32_503_680_000, 999_999_999)), Some(0o000), 0);
    add("c/r/odd/epoch", Kind::File, None, Some((0, 0)), Some(0o7777), 5_000_000_000);
    add("c/r/odd/pre", Kind::File, None, Some((-1, 500)), None, 1);
    // times that no calendar library represents (tmpfs keeps 64-bit seconds)
    add("c/r/odd/far", Kind::File, None, Some((9_000_000_000_000, 0)), None, 1);
    add("c/r/odd/farther", Kind::File, None, Some((10_000_000_000_000_000, 1)), None, 1);
    add("c/r/odd/first", Kind::File, None, Some((i64::MIN, 0)), None, 1);
    add("c/r/pipe", Kind::Fifo, Some((54321, 54321)), None, None, 0);
    add("c/r/sock", Kind::Sock, None, None, None, 0);
    add("c/r/lnk_dangling", Kind::Link("no/where".into()), Some((54321, 54321)), None, None, 0);
    add("c/r/lnk_loop", Kind::Link("lnk_loop".into()), None, None, None, 0);
    add("c/r/lnk_dir", Kind::Link("b".into()), None, None, None, 0);
    add("c/r/lnk_up", Kind::Link("..".into()), None, None, None, 0);
    add("c/r/é 日本\n", Kind::File, None, None, None, 0);
    add("c/r/-dash", Kind::File, None, None, None, 0);
    t
}

fn check_vec(ctx: &mut Ctx, c: &VecCase) -> Outcome {
    ctx.fresh_case_dir();
    weird_tree().build();
    std::fs::write("c/ref", b"x").unwrap();
    let mut args: Vec<String> = c.flags.clone();
    args.extend(c.roots.iter().cloned());
    // placeholders of the probes: "@BIG:n@" = one word of n bytes, "@PARENS:n@" = n opening
    // parentheses, -true, n closing ones
    for t in &c.tokens {
        if let Some(n) = t.strip_prefix("@BIG:").and_then(|r| r.strip_suffix('@')).and_then(|n| n.parse::<usize>().ok()) {
            args.push("x".repeat(n));
        } else if let Some(n) = t.strip_prefix("@PARENS:").and_then(|r| r.strip_suffix('@')).and_then(|n| n.parse::<usize>().ok()) {
            args.extend(std::iter::repeat("(".to_string()).take(n));
            args.push("-true".into());
            args.extend(std::iter::repeat(")".to_string()).take(n));
        } else if let Some(n) = t.strip_prefix("@ORPARENS:").and_then(|r| r.strip_suffix('@')).and_then(|n| n.parse::<usize>().ok()) {
            // n levels that do nest in the expression tree: -false -o ( -false -o ( ... -true ) )
            for _ in 0..n {
                args.extend(["-false".to_string(), "-o".to_string(), "(".to_string()]);
            }
            args.push("-true".into());
            args.extend(std::iter::repeat(")".to_string()).take(n));
        } else if t == "@REC@" {
            // (saved cases name the recorder by this placeholder: its path depends on where /verif is)
            args.push(rec_bin().to_string_lossy().into_owned());
        } else {
            args.push(t.clone());
        }
    }
    let shown = |a: &[String]| -> String {
        let mut v: Vec<String> = vec![];
        let mut i = 0;
        while i < a.len() {
            let mut j = i;
            while j < a.len() && a[j] == a[i] {
                j += 1;
            }
            let w = if a[i].len() > 80 { format!("<{} bytes: {:?}...>", a[i].len(), &a[i][..20]) } else { format!("{:?}", a[i]) };
            v.push(if j - i > 3 { format!("{w} x{}", j - i) } else { vec![w; j - i].join(" ") });
            i = j;
        }
        v.join(" ")
    };
    // without a starting point find walks '.', i.e. the sandbox root: fine (it only holds c/)
    let multibyte = c.tokens.iter().any(|t| !t.is_ascii());
    let (status, visited, diag);
    if c.binary {
        // (the deep-nesting probes are close to the largest argument vector the kernel takes: where
        // the limit is lower than usual they cannot be started at all, which decides nothing)
        let need: usize = args.iter().map(|a| a.len() + 9).sum::<usize>() + std::env::vars_os().map(|(k, v)| k.len() + v.len() + 10).sum::<usize>() + 8192;
        if need > unsafe { libc::sysconf(libc::_SC_ARG_MAX) } as usize {
            return Pass::discard("argument vector larger than this system's ARG_MAX");
        }
        let mut a: Vec<OsString> = args.iter().map(OsString::from).collect();
        if let Some(k) = c.raw_bytes_at {
            use std::os::unix::ffi::OsStringExt;
            let at = c.flags.len() + c.roots.len() + k;
            if at < a.len() {
                a[at] = OsString::from_vec(vec![b'x', 0xff, 0xfe, b'*']);
            }
        }
        let log = ctx.root.join("rec.log");
        let o = ctx.run_bin(&find_bin(), &a, &BinOpts { env: vec![("VERIF_REC_LOG".into(), log.into_os_string())], timeout_s: 60, stdout_sink: c.sinks & 15, stderr_sink: c.sinks >> 4, ..Default::default() });
        // being killed by SIGPIPE is how a program conventionally ends when nobody reads its output
        let sigpipe = o.signal == Some(13) && (c.sinks & 15 == 2 || c.sinks >> 4 == 2);
        if !o.ordinary() && !sigpipe {
            let stderr = lossy(&o.stderr);
            let loc = stderr.lines().find(|l| l.contains("panicked at")).map(|l| l.split("panicked at ").nth(1).unwrap_or("?").trim_end_matches(':').to_string()).unwrap_or_else(|| format!("signal-{:?}", o.signal));
            let loc_short: String = loc.rsplit("/src/").next().unwrap_or(&loc).split(':').take(2).collect::<Vec<_>>().join(":");
            let loc_short = if stderr.contains("overflowed its stack") { format!("stack-overflow:{}", if args.iter().filter(|a| *a == "(").count() >= 500 { if args.iter().any(|a| a == "-o") { "deep-expression-tree" } else { "nested-parentheses" } } else { "other-shape" }) } else { loc_short };
            let loc_short = if c.sinks != 0 && !loc_short.starts_with("stack-overflow") { format!("{loc_short}:output-fails") } else { loc_short };
            return fail(format!("C11:panic:{loc_short}"), format!("find {} (binary; stdout {}, stderr {})\nexit {:?} signal {:?}\nstderr {:?}", shown(&args), ["captured", "/dev/full", "closed pipe"][(c.sinks & 15) as usize % 3], ["captured", "/dev/full", "closed pipe"][(c.sinks >> 4) as usize % 3], o.code, o.signal, stderr.chars().take(2000).collect::<String>()));
        }
        status = o.code.unwrap_or(-1);
        visited = !o.stdout.is_empty();
        diag = !o.stderr.is_empty();
    } else {
        let o = run_in_process(ctx, &args);
        if let Some(p) = o.panic {
            return fail(panic_sig(&p), format!("find {}\npanic: {p}\nstderr {:?}", shown(&args), lossy(&o.stderr)));
        }
        status = o.status;
        visited = !o.stdout.is_empty() || o.rec_ran;
        diag = !o.stderr.is_empty();
    }
    let _ = (diag, status);
    Pass::new((status == 0 && visited) || multibyte)
        .class_if(status == 0, "exit-0")
        .class_if(status != 0, "diagnosed-(exit-non-zero)")
        .class_if(multibyte, "multi-byte-operand")
        .class_if(c.binary, "through-binary")
        .class_if(c.binary && c.raw_bytes_at.is_some(), "non-utf8-argument")
        .class_if(c.binary && c.sinks != 0, "output-that-cannot-be-written")
        .class_if(c.tokens.iter().any(|t| t == "-delete"), "with-delete")
        .class_if(c.tokens.iter().any(|t| t == "-ls" || t == "-fls"), "with-ls")
        .sample(json!({"cmdline": format!("find {}", shown(&args)), "exit": status}))
        .ok()
}

/// deterministic probes of shapes named in the statement
fn probes() -> Vec<VecCase> {
    let s = |x: &str| x.to_string();
    let mk = |tokens: Vec<&str>| VecCase { flags: vec![], roots: vec![s("c/r")], tokens: tokens.iter().map(|x| s(x)).collect(), binary: false, raw_bytes_at: None, sinks: 0 };
    vec![
        mk(vec!["-ls"]),
        mk(vec!["-delete", "-ls"]),
        mk(vec!["-depth", "-delete", "-printf", "%s %m %u %g %y %Y %l\\n"]),
        mk(vec!["-delete", "-fls", "c/out1"]),
        mk(vec!["-printf", "%u %g %U %G %M\\n"]),
        mk(vec!["-fls", "c/out1"]),
        mk(vec!["-printf", "%é"]),
        mk(vec!["-printf", "\\12é"]),
        mk(vec!["-printf", "%99999999999999999999999d"]),
        mk(vec!["-name", "[[:"]),
        mk(vec!["-name", "[[."]),
        mk(vec!["-name", "[z-a]"]),
        mk(vec!["-iname", "x[9-0]y"]),
        mk(vec!["-path", "[--!]*"]),
        mk(vec!["-lname", "[[:foo:]]"]),
        mk(vec!["-ilname", "[a-[:alpha:]]"]),
        mk(vec!["-false", "-a", "-name", "[[=a=]b-a]"]),
        mk(vec!["-regex", "[z-a]"]),
        mk(vec!["-regex", "[[:foo:]]"]),
        mk(vec!["-newermt", "jan ０１, 2025"]),
        mk(vec!["-newermt", "jan 01, ２０２５"]),
        mk(vec!["-newerat", "jan 01, 2025 ００:00:00"]),
        mk(vec!["-newerct", ", ١٢٣٤"]),
        mk(vec!["-fprintf"]),
        mk(vec!["-fprintf", "c/out1"]),
        mk(vec!["-a"]),
        mk(vec!["!"]),
        mk(vec![")"]),
        mk(vec!["("]),
        mk(vec!["-size", "99999999999999999999999999k"]),
        mk(vec!["-perm", ""]),
        mk(vec!["-exec"]),
        mk(vec!["-user", "é"]),
        mk(vec!["-regex", "\\(\\(\\(a*\\)*\\)*\\)*b"]),
        mk(vec!["-fstype", "é"]),
        mk(vec!["-samefile", "c/r/lnk_loop"]),
        mk(vec!["-newer", "c/r/lnk_dangling"]),
        mk(vec!["-files0-from", "c/ref"]),
        // fixed arguments of a batching action that cannot fit into any command line
        mk(vec!["-exec", "true", "@BIG:3000000@", "{}", "+"]),
        mk(vec!["-execdir", "true", "@BIG:3000000@", "@BIG:3000000@", "{}", "+"]),
        mk(vec!["-exec", "true", "@BIG:3000000@", "{}", ";"]),
        mk(vec!["-name", "@BIG:3000000@"]),
        mk(vec!["-regex", "@BIG:300000@"]),
        mk(vec!["-printf", "@BIG:3000000@"]),
        // output that cannot be written
        VecCase { flags: vec![], roots: vec![s("c/r")], tokens: vec![s("-print")], binary: true, raw_bytes_at: None, sinks: 1 },
        VecCase { flags: vec![], roots: vec![s("c/r")], tokens: vec![s("-print0")], binary: true, raw_bytes_at: None, sinks: 2 },
        VecCase { flags: vec![], roots: vec![s("c/r")], tokens: vec![s("-printf"), s("%p %s\\n")], binary: true, raw_bytes_at: None, sinks: 1 },
        VecCase { flags: vec![], roots: vec![s("c/r")], tokens: vec![s("-printf"), s("%p")], binary: true, raw_bytes_at: None, sinks: 2 },
        VecCase { flags: vec![], roots: vec![s("c/r")], tokens: vec![s("-ls")], binary: true, raw_bytes_at: None, sinks: 1 },
        VecCase { flags: vec![], roots: vec![s("c/r")], tokens: vec![s("-ls")], binary: true, raw_bytes_at: None, sinks: 2 },
        VecCase { flags: vec![], roots: vec![s("c/r"), s("c/missing")], tokens: vec![s("-exec"), s("no-such-command-xyz"), s(";"), s("-delete")], binary: true, raw_bytes_at: None, sinks: 1 << 4 },
        VecCase { flags: vec![], roots: vec![s("c/r"), s("c/missing")], tokens: vec![s("-exec"), s("no-such-command-xyz"), s("{}"), s("+")], binary: true, raw_bytes_at: None, sinks: 2 << 4 },
        VecCase { flags: vec![], roots: vec![s("c/r")], tokens: vec![s("-bogus")], binary: true, raw_bytes_at: None, sinks: 1 << 4 },
        VecCase { flags: vec![], roots: vec![], tokens: vec![s("-help")], binary: true, raw_bytes_at: None, sinks: 1 },
        VecCase { flags: vec![], roots: vec![], tokens: vec![s("--help")], binary: true, raw_bytes_at: None, sinks: 2 },
        VecCase { flags: vec![], roots: vec![], tokens: vec![s("-version")], binary: true, raw_bytes_at: None, sinks: 1 },
        VecCase { flags: vec![], roots: vec![s("c/r")], tokens: vec![s("--version")], binary: true, raw_bytes_at: None, sinks: 2 },
        VecCase { flags: vec![], roots: vec![s("c/r/odd")], tokens: vec![s("-ls")], binary: false, raw_bytes_at: None, sinks: 0 },
        VecCase { flags: vec![], roots: vec![s("c/r/odd")], tokens: vec![s("-printf"), s("%t %a %c %TY %T+ %Ak %CH %T@\\n")], binary: false, raw_bytes_at: None, sinks: 0 },
        VecCase { flags: vec![], roots: vec![s("c/r/odd")], tokens: vec![s("-newermt"), s("jan 01, 2020")], binary: false, raw_bytes_at: None, sinks: 0 },
        VecCase { flags: vec![], roots: vec![s("c/r/odd")], tokens: vec![s("-newer"), s("c/r/odd/far"), s("-o"), s("-mtime"), s("+1"), s("-o"), s("-mmin"), s("-5"), s("-o"), s("-newermm"), s("c/r/odd/first")], binary: false, raw_bytes_at: None, sinks: 0 },
        VecCase { flags: vec![], roots: vec![s("c/r/odd")], tokens: vec![s("-fls"), s("c/out-fls")], binary: false, raw_bytes_at: None, sinks: 0 },
        VecCase { flags: vec![], roots: vec![s("c/r")], tokens: vec![s("-delete"), s("-ls")], binary: true, raw_bytes_at: None, sinks: 0x11 },
        // nesting (through the binary: an exhausted stack cannot be caught in process)
        VecCase { flags: vec![], roots: vec![s("c/r")], tokens: vec![s("@PARENS:200@")], binary: true, raw_bytes_at: None, sinks: 0 },
        VecCase { flags: vec![], roots: vec![s("c/r")], tokens: vec![s("@PARENS:2000@")], binary: true, raw_bytes_at: None, sinks: 0 },
        VecCase { flags: vec![], roots: vec![s("c/r")], tokens: vec![s("@PARENS:20000@")], binary: true, raw_bytes_at: None, sinks: 0 },
        VecCase { flags: vec![], roots: vec![s("c/r")], tokens: vec![s("@PARENS:90000@")], binary: true, raw_bytes_at: None, sinks: 0 },
        VecCase { flags: vec![], roots: vec![s("c/r")], tokens: vec![s("@ORPARENS:2000@")], binary: true, raw_bytes_at: None, sinks: 0 },
        VecCase { flags: vec![], roots: vec![s("c/r")], tokens: vec![s("@ORPARENS:20000@")], binary: true, raw_bytes_at: None, sinks: 0 },
        // (listed finding: the tree that this builds is walked recursively)
        VecCase { flags: vec![], roots: vec![s("c/r")], tokens: vec![s("@ORPARENS:38000@")], binary: true, raw_bytes_at: None, sinks: 0 },
        VecCase { flags: vec![], roots: vec![s("c/r")], tokens: std::iter::repeat(s("!")).take(90000).chain([s("-true")]).collect(), binary: true, raw_bytes_at: None, sinks: 0 },
        VecCase { flags: vec![], roots: vec![s("c/r")], tokens: std::iter::repeat([s("-true"), s("-o")]).take(40000).flatten().chain([s("-true")]).collect(), binary: true, raw_bytes_at: None, sinks: 0 },
        VecCase { flags: vec![], roots: vec![s("c/r")], tokens: vec![s("-name"), s("x")], binary: true, raw_bytes_at: Some(1), sinks: 0 },
        VecCase { flags: vec![], roots: vec![s("c/r")], tokens: vec![s("-print")], binary: true, raw_bytes_at: Some(0), sinks: 0 },
    ]
}

fn run(w: &mut Worker) {
    w.regress::<SeqCase>("grammar", check_seq);
    w.regress::<OperandCase>("operands", check_operand);
    w.regress::<VecCase>("nopanic", check_vec);
    // (a) exhaustive over a 15-unit core alphabet
    let maxlen = w.tier.pick(4usize, 5);
    let core: Vec<u8> = (0..15).collect();
    let mut seqs: Vec<SeqCase> = vec![SeqCase { units: vec![] }];
    let mut frontier: Vec<Vec<u8>> = vec![vec![]];
    for _ in 0..maxlen {
        let mut next = vec![];
        for s in &frontier {
            for u in &core {
                let mut v = s.clone();
                v.push(*u);
                next.push(v);
            }
        }
        seqs.extend(next.iter().map(|u| SeqCase { units: u.clone() }));
        frontier = next;
    }
    w.exhaustive("grammar-small", &format!("every sequence of <= {maxlen} units over a 15-unit alphabet ({})", UNIT_NAMES[..15].join(" ")), seqs.into_iter(), check_seq);
    w.random("grammar", w.tier.pick(12_000, 200_000), (20, 80), 400, gen_seq, check_seq);
    // (b)
    let n = bad_operands().len();
    let mut ops = vec![];
    for which in 0..n {
        for position in 0..5u8 {
            ops.push(OperandCase { which, position });
        }
    }
    w.exhaustive("operands", "every entry of the invalid-operand table x 5 positions in an expression with -print, -delete and -exec rec", ops.into_iter(), check_operand);
    let maxtok = w.tier.pick(5usize, 6);
    let mut parens: Vec<ParenCase> = vec![];
    let mut frontier: Vec<Vec<u8>> = vec![vec![]];
    for _ in 0..maxtok {
        let mut next = vec![];
        for f in &frontier {
            for t in 0..4u8 {
                let mut v = f.clone();
                v.push(t);
                next.push(v);
            }
        }
        for toks in &next {
            for syntax in 0..4u8 {
                for iregex in [false, true] {
                    parens.push(ParenCase { toks: toks.clone(), syntax, iregex });
                }
            }
        }
        frontier = next;
    }
    w.regress::<ParenCase>("operands-regex-groups", check_paren);
    w.exhaustive("operands-regex-groups", &format!("every string of <= {maxtok} tokens over {{a, open-group, close-group, .*}} whose group delimiters do not balance (for posix-extended: that leaves a group open even if an unmatched ')' is read as an ordinary character) x emacs / posix-basic / posix-extended / sed x -regex / -iregex"), parens.into_iter(), check_paren);
    // (c)
    w.exhaustive("nopanic-probes", "deterministic probes of the shapes the statement names", probes().into_iter(), check_vec);
    w.random("nopanic", w.tier.pick(40_000, 600_000), (30, 120), 600, gen_vec, check_vec);
}

fn replay(w: &mut Worker, sub: &str, v: Value) -> Outcome {
    if sub.starts_with("grammar") {
        check_seq(&mut w.ctx, &decode(v))
    } else if sub.starts_with("operands-regex-groups") {
        check_paren(&mut w.ctx, &decode(v))
    } else if sub.starts_with("operands") {
        check_operand(&mut w.ctx, &decode(v))
    } else {
        check_vec(&mut w.ctx, &decode(v))
    }
}

/// libFuzzer entry: the bytes are the choice stream of the argument-vector generator; the vector
/// is parsed (and "walked") by find over a starting point that does not exist, so nothing is
/// visited, executed or deleted.  Oracle: no panic / abort (the process dies on one), and a
/// vector that the reference recogniser classifies as a non-sentence must not exit 0.
pub fn fuzz_one(data: &[u8]) -> Option<crate::engine::Violation> {
    let words = crate::words_of(data);
    let mut g = Gen::new(&words);
    let c = gen_vec(&mut g);
    // -files0-from would replace the (missing) starting point by names from a file: keep it out
    if c.tokens.iter().any(|t| t == "-files0-from") {
        return None;
    }
    let mut args: Vec<String> = c.flags.clone();
    args.push("/nonexistent-verif-root/x".into());
    args.extend(c.tokens.iter().cloned());
    let a: Vec<&str> = args.iter().map(|s| s.as_str()).collect();
    let (status, out) = crate::engine::proc::find_plain(&a);
    if let Class::NonSentence(why) = classify_tokens(&c.tokens) {
        if status == 0 || !out.is_empty() {
            return Some(crate::engine::Violation { signature: "C11:malformed-command-line-accepted:fuzz".into(), detail: format!("find {args:?} [{why}] exit {status}") });
        }
    }
    None
}
