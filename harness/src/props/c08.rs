//! C08 — -exec ... {} + (and -execdir ... {} +): each path delivered once, in order, within OS limits.

use super::{decode, PropDef};
use crate::engine::fsx::{ref_walk, Act, FollowMode, WalkOpts};
use crate::engine::proc::{find_bin, lossy, read_rec_log, rec_bin, BinOpts, Ctx};
use crate::engine::{fail, Gen, Outcome, Pass, Worker};
use serde::{Deserialize, Serialize};
use serde_json::{json, Value};
use std::collections::BTreeMap;
use std::ffi::OsString;
use std::os::unix::ffi::OsStrExt;

pub static DEF: PropDef = PropDef {
    id: "C08",
    rule: "random: trees from empty to 3000 entries (thorough: 30000) in 1-12 directories nested up to 4 deep, names of 1-250 bytes (so that the 128 KiB budget of a 256 KiB stack limit forces many batches cheaply) incl. blanks/newlines/leading dashes, run through the built find binary under RLIMIT_STACK {256 KiB, 1 MiB, 8 MiB, unlimited} x -exec/-execdir x 0-3 fixed arguments x test prefix {none, -type f, -name 'f*', ! -name '*7*'} x {-depth} x {-mindepth 0..3} x one or two starting points (the first spelled c/r, ./c/r, c/r/, c//r, c/r/., c/up/../r or c/up/..; for -execdir on such a starting point itself the textual and the physical (directory, ./name) pair are both accepted) x '-quit' after the k-th matching entry x rec scripted to fail (exit 1..255 / signal) on chosen invocations x a missing command x a labelled -printf after the action (its truth). Oracle: records from rec: fixed arguments first and unchanged; the concatenation of the appended paths over all invocations == the reference visit-order list of entries on which the action is reached (each exactly once, in order); no 'Argument list too long'; all pending batches have run after -quit and at exit; exit status != 0 iff some invocation failed or could not be started; the -printf after the action fires on every reached entry (action always true). -execdir: every record's cwd is one directory, its appended arguments are ./basename of entries of exactly that directory, per-directory order preserved, every entry delivered once. Non-trivial = >= 2 invocations of the action, or a -quit / failing-invocation / missing-command case. Distinct = distinct case JSON.",
    assumptions: &[
        "the running kernel decides whether an invocation is accepted",
        "-exec batches are flushed at the end of each starting point (visible only as invocation boundaries, which are not asserted)",
        "with -execdir and -depth-less walks a directory's entries may be split over several invocations (interleaved subdirectories); only single-directory-ness, names, cwd, order and exactly-once are asserted",
    ],
    run,
    replay,
    fuzz: None,
};

#[derive(Serialize, Deserialize, Debug, Clone)]
pub struct Case {
    /// directories: parent index (usize::MAX = the root) ; names d0, d1, ...
    pub dirs: Vec<usize>,
    /// number of files per directory (index 0 = root, i+1 = dirs[i])
    pub files: Vec<usize>,
    pub name_len: usize,
    /// 0 plain, 1 names with blanks/newlines/leading dash
    pub name_style: u8,
    pub stack: u8,
    pub execdir: bool,
    pub fixed: Vec<String>,
    /// 0 none, 1 -type f, 2 -name 'f*', 3 ! -name '*7*'
    pub test: u8,
    pub depth: bool,
    pub two_roots: bool,
    /// quit after this many reached entries
    pub quit_after: Option<usize>,
    /// exit status per invocation index; 256+s = signal
    pub script: Vec<u16>,
    pub missing_cmd: bool,
    /// a second, independent "-exec rec B {} +" action after the first one (each action batches on
    /// its own; a later successful invocation must not erase an earlier failure)
    #[serde(default)]
    pub second: bool,
    /// index into ROOT_SPELLINGS for the first starting point
    #[serde(default)]
    pub root_spelling: u8,
    /// -mindepth N: the directories between the reached files are then not evaluated themselves
    #[serde(default)]
    pub mindepth: u8,
}

/// spellings of the first starting point (the tree is built at c/r; c/up is an empty sibling)
pub const ROOT_SPELLINGS: &[&str] = &["c/r", "./c/r", "c/r/", "c//r", "c/r/.", "c/up/../r", "c/up/.."];

fn stack_bytes(s: u8) -> u64 {
    match s {
        0 => 256 << 10,
        1 => 1 << 20,
        2 => 8 << 20,
        _ => u64::MAX,
    }
}

pub fn gen_case(g: &mut Gen, big: bool) -> Case {
    let ndirs = g.usize_in(0, 11);
    let mut dirs = vec![];
    for i in 0..ndirs {
        // parent among root and earlier dirs, depth <= 4
        let p = if i == 0 || g.chance(1, 3) { usize::MAX } else { g.usize_in(0, i - 1) };
        dirs.push(p);
    }
    let total_target = match g.weighted(&[1, 3, 4, 3]) {
        0 => 0,
        1 => g.usize_in(1, 20),
        2 => g.usize_in(100, 1200),
        _ => g.usize_in(1200, if big { 30_000 } else { 3000 }),
    };
    let mut files = vec![0usize; ndirs + 1];
    let mut left = total_target;
    for i in 0..=ndirs {
        let share = if i == ndirs { left } else { g.usize_in(0, left.min(total_target / (ndirs + 1) * 2 + 3)) };
        files[i] = share;
        left -= share;
    }
    let name_len = g.pick(&[1usize, 8, 60, 120, 200, 250]);
    let stack = if total_target > 5000 { 2 + g.below(2) as u8 } else { g.weighted(&[5, 2, 2, 1]) as u8 };
    let script = match g.weighted(&[4, 1, 1]) {
        0 => vec![],
        1 => g.vec_of(1, 12, |g| match g.weighted(&[5, 3, 1]) {
            0 => 0u16,
            1 => g.pick(&[1u16, 2, 255, 126]),
            _ => 256 + 15,
        }),
        _ => {
            // exactly one failing invocation (its position decides whether the status survives
            // whatever happens around it: the last batch, the batch flushed on entering a new
            // directory, the batch flushed while -quit fires)
            let k = g.usize_in(0, 7);
            let mut v = vec![0u16; k];
            v.push(g.pick(&[1u16, 3, 255]));
            v
        }
    };
    Case {
        dirs,
        files,
        name_len,
        name_style: g.weighted(&[3, 1]) as u8,
        stack,
        execdir: g.chance(2, 5),
        fixed: g.vec_of(0, 3, |g| g.pick(&["-x", "fixed arg", "{", "é", "+", ";x"]).to_string()),
        test: g.weighted(&[4, 2, 2, 2]) as u8,
        depth: g.chance(1, 4),
        two_roots: g.chance(1, 5),
        quit_after: if g.chance(1, 3) { Some(if g.bool() { g.usize_in(0, total_target.max(1)) } else { g.usize_in(0, 12.min(total_target.max(1))) }) } else { None },
        script,
        missing_cmd: g.chance(1, 25),
        second: g.chance(1, 4),
        root_spelling: if g.chance(1, 3) { g.below(ROOT_SPELLINGS.len() as u64) as u8 } else { 0 },
        mindepth: if g.chance(1, 4) { g.usize_in(1, 3) as u8 } else { 0 },
    }
}

fn make_name(prefix: &str, idx: usize, len: usize, style: u8) -> String {
    let mut s = format!("{prefix}{idx}");
    if style == 1 {
        s = match idx % 4 {
            0 => format!("-{s}"),
            1 => format!("{s} x"),
            2 => format!("{s}\ny"),
            _ => format!(" {s}"),
        };
    }
    while s.len() < len {
        s.push('_');
    }
    s
}

fn build(c: &Case, root: &str) {
    std::fs::create_dir(root).unwrap();
    let mut dpaths: Vec<String> = vec![];
    for (i, p) in c.dirs.iter().enumerate() {
        let parent = if *p == usize::MAX { root.to_string() } else { dpaths[*p].clone() };
        // depth bound: at most 4 below the root
        let parent = if parent.matches('/').count() >= root.matches('/').count() + 4 { root.to_string() } else { parent };
        let path = format!("{parent}/{}", make_name("d", i, c.name_len.min(40), 0));
        std::fs::create_dir(&path).unwrap();
        dpaths.push(path);
    }
    for (i, n) in c.files.iter().enumerate() {
        let dir = if i == 0 { root.to_string() } else { dpaths[i - 1].clone() };
        for k in 0..*n {
            let name = make_name("f", k, c.name_len, c.name_style);
            std::fs::File::create(format!("{dir}/{name}")).unwrap();
        }
    }
}

pub fn check(ctx: &mut Ctx, c: &Case) -> Outcome {
    ctx.fresh_case_dir();
    build(c, "c/r");
    let _ = std::fs::create_dir("c/up");
    let mut roots = vec![ROOT_SPELLINGS[c.root_spelling as usize % ROOT_SPELLINGS.len()].to_string()];
    if c.two_roots {
        build(c, "c/s");
        roots.push("c/s".to_string());
    }
    // the reached entries, in visit order
    let wo = WalkOpts { follow: FollowMode::P, depth_first: c.depth, min_depth: c.mindepth as usize, ..Default::default() };
    let mut reached: Vec<String> = vec![];
    let mut quit_hit = false;
    for r in &roots {
        let mut ev = vec![];
        let cont = ref_walk(r, &wo, &mut |e| {
            let name = e.name();
            let sel = match c.test {
                0 => true,
                1 => e.type_of() == 'f',
                2 => name.starts_with('f'),
                _ => !name.contains('7'),
            };
            if sel {
                reached.push(e.path.clone());
                if let Some(k) = c.quit_after {
                    if reached.len() > k {
                        return Act::Quit;
                    }
                }
            }
            Act::Continue
        }, &mut ev);
        if !cont {
            quit_hit = true;
            break;
        }
    }
    // command line
    let mut args: Vec<String> = roots.clone();
    args.push("-sorted".into());
    if c.depth {
        args.push("-depth".into());
    }
    if c.mindepth > 0 {
        args.push("-mindepth".into());
        args.push(c.mindepth.to_string());
    }
    match c.test {
        1 => args.extend(["-type".to_string(), "f".to_string()]),
        2 => args.extend(["-name".to_string(), "f*".to_string()]),
        3 => args.extend(["!".to_string(), "-name".to_string(), "*7*".to_string()]),
        _ => {}
    }
    args.push(if c.execdir { "-execdir".into() } else { "-exec".into() });
    args.push(if c.missing_cmd { "no-such-command-xyz".to_string() } else { rec_bin().to_string_lossy().into_owned() });
    args.extend(c.fixed.iter().cloned());
    args.push("{}".into());
    args.push("+".into());
    if c.second {
        args.push(if c.execdir { "-execdir".into() } else { "-exec".into() });
        args.push(rec_bin().to_string_lossy().into_owned());
        args.extend(["@second@".to_string(), "{}".to_string(), "+".to_string()]);
    }
    args.extend(["-printf".to_string(), "T:%p\\0".to_string()]);
    if let Some(k) = c.quit_after {
        // quit once more than k entries were reached: a counter is not expressible, so quit on the (k+1)-th path by name
        if let Some(p) = reached.get(k) {
            args.extend(["-path".to_string(), glob_escape(p), "-quit".to_string()]);
        }
    }
    let log = ctx.root.join("rec.log");
    let _ = std::fs::remove_file(&log);
    let script: String = c.script.iter().map(|v| if *v >= 256 { format!("s{}", v - 256) } else { v.to_string() }).collect::<Vec<_>>().join(",");
    let a: Vec<OsString> = args.iter().map(OsString::from).collect();
    let o = ctx.run_bin(&find_bin(), &a, &BinOpts { env: vec![("VERIF_REC_LOG".into(), log.clone().into_os_string()), ("VERIF_REC_SCRIPT".into(), script.clone().into())], stack_limit: Some(stack_bytes(c.stack)), timeout_s: 600, clear_env: true, ..Default::default() });
    let all_recs = read_rec_log(&log);
    // the second action's invocations carry the marker as their first argument
    let is_second = |r: &crate::engine::proc::RecInvocation| r.args.first().map_or(false, |a| a == b"@second@");
    let recs: Vec<crate::engine::proc::RecInvocation> = all_recs.iter().filter(|r| !is_second(r)).cloned().collect();
    let recs2: Vec<crate::engine::proc::RecInvocation> = all_recs.iter().filter(|r| is_second(r)).cloned().collect();
    let kind = if c.execdir { "execdir" } else { "exec" };
    let short = |v: &[String]| -> String {
        if v.len() <= 8 {
            format!("{v:?}")
        } else {
            format!("[{} paths: {:?} ... {:?}]", v.len(), &v[..3], &v[v.len() - 2..])
        }
    };
    let delivered_all: Vec<String> = recs.iter().flat_map(|r| r.args.iter().skip(c.fixed.len()).map(|a| lossy(a))).collect();
    let desc = || {
        format!(
            "find {} (RLIMIT_STACK {})\nscript {script:?}\nexit {:?} signal {:?}\nstderr {:?}\nreached (reference): {}\ninvocations: {} sizes {:?}\ndelivered: {}",
            args.iter().map(|a| if a.len() > 60 { format!("{}...", a.chars().take(60).collect::<String>()) } else { a.clone() }).collect::<Vec<_>>().join(" "),
            if stack_bytes(c.stack) == u64::MAX { "unlimited".into() } else { stack_bytes(c.stack).to_string() },
            o.code,
            o.signal,
            lossy(&o.stderr[..o.stderr.len().min(500)]),
            short(&reached),
            recs.len(),
            recs.iter().map(|r| r.args.len()).take(20).collect::<Vec<_>>(),
            short(&delivered_all)
        )
    };
    if !o.ordinary() {
        return fail(format!("C08:abnormal-termination:{kind}"), desc());
    }
    let stderr_s = lossy(&o.stderr);
    if stderr_s.contains("Argument list too long") || stderr_s.contains("os error 7") {
        return fail(format!("C08:exec-rejected-command-line:{kind}"), desc());
    }
    // truth: the label after the action fires on every reached entry
    let mut want_out = Vec::new();
    for p in &reached {
        want_out.extend_from_slice(format!("T:{p}").as_bytes());
        want_out.push(0);
    }
    if o.stdout != want_out {
        return fail(format!("C08:action-not-true-or-visit-set-differs:{kind}"), desc());
    }
    if c.missing_cmd {
        if !recs.is_empty() {
            return fail("C08:missing-command-ran", desc());
        }
        if !reached.is_empty() && o.code == Some(0) {
            return fail(format!("C08:exit-0-although-command-could-not-start:{kind}"), desc());
        }
        return Pass::new(!reached.is_empty()).class("missing-command").ok();
    }
    // fixed arguments first and unchanged
    for r in &recs {
        if r.args.len() < c.fixed.len() || r.args[..c.fixed.len()].iter().zip(&c.fixed).any(|(a, b)| a != b.as_bytes()) {
            return fail(format!("C08:fixed-arguments-changed:{kind}"), desc());
        }
        if r.args.len() == c.fixed.len() {
            return fail(format!("C08:invocation-without-paths:{kind}"), desc());
        }
    }
    let cwd_abs = ctx.root.to_string_lossy().into_owned();
    if !c.execdir {
        if delivered_all != reached {
            let what = if delivered_all.len() < reached.len() { "paths-lost" } else if delivered_all.len() > reached.len() { "paths-duplicated-or-extra" } else { "order-or-text-differs" };
            return fail(format!("C08:{what}:{kind}{}", if quit_hit { ":quit" } else { "" }), desc());
        }
        if recs.iter().any(|r| lossy(&r.cwd) != cwd_abs) {
            return fail("C08:working-directory:exec", desc());
        }
    } else {
        // per directory: expected ./basename sequence
        let mut got: BTreeMap<String, Vec<String>> = BTreeMap::new();
        for r in &recs {
            let e = got.entry(lossy(&r.cwd)).or_default();
            e.extend(r.args.iter().skip(c.fixed.len()).map(|a| lossy(a)));
        }
        let canon = |d: &str| std::fs::canonicalize(if d.is_empty() { "." } else { d }).map(|x| x.to_string_lossy().into_owned()).unwrap_or_else(|_| format!("{cwd_abs}/{d}"));
        let mut want: BTreeMap<String, Vec<String>> = BTreeMap::new();
        for p in &reached {
            let t = p.trim_end_matches('/');
            let (par, base) = match t.rfind('/') {
                Some(i) => (&t[..i], &t[i + 1..]),
                None => ("", t),
            };
            // the textual view (directory = the text before the last component) and, for a starting
            // point spelled with a trailing '/', '.' or '..', also the physical one (real parent, real
            // name): whichever of them was observed is the expectation
            let mut views = vec![(canon(par), format!("./{base}"))];
            if roots.contains(p) {
                if p.ends_with('/') {
                    views.push((canon(par), format!("./{base}/")));
                }
                if let Ok(real) = std::fs::canonicalize(p) {
                    if let (Some(d), Some(n)) = (real.parent(), real.file_name()) {
                        views.push((d.to_string_lossy().into_owned(), format!("./{}", n.to_string_lossy())));
                    }
                }
            }
            let pick = views.iter().find(|(d, n)| got.get(d).is_some_and(|v| v.contains(n))).unwrap_or(&views[0]).clone();
            want.entry(pick.0).or_default().push(pick.1);
        }
        if got != want {
            // classify
            let what = if got.keys().any(|k| !want.contains_key(k)) {
                "ran-in-wrong-directory"
            } else if got.values().map(|v| v.len()).sum::<usize>() != reached.len() {
                "paths-lost-or-duplicated"
            } else {
                "entries-of-another-directory-or-order"
            };
            let sp = &roots[0];
            let odd = if sp.ends_with("/..") { ":starting-point-ends-in-dotdot" } else if sp.ends_with("/.") { ":starting-point-ends-in-dot" } else if sp.ends_with('/') { ":starting-point-ends-in-slash" } else { "" };
            return fail(format!("C08:{what}:execdir{}{odd}", if quit_hit { ":quit" } else { "" }), desc());
        }
    }
    // the second action delivers the same list (in its own batches)
    if c.second {
        if !c.execdir {
            let d2: Vec<String> = recs2.iter().flat_map(|r| r.args.iter().skip(1).map(|a| lossy(a))).collect();
            if d2 != reached {
                return fail(format!("C08:second-action:paths-lost-or-reordered:{kind}"), desc());
            }
        } else {
            let n2: usize = recs2.iter().map(|r| r.args.len() - 1).sum();
            if n2 != reached.len() {
                return fail(format!("C08:second-action:paths-lost-or-duplicated:{kind}"), desc());
            }
        }
    }
    // exit status (the script is indexed by the global invocation order over both actions)
    let failed = all_recs.iter().enumerate().any(|(i, _)| c.script.get(i).copied().unwrap_or(0) != 0);
    if failed && o.code == Some(0) {
        return fail(format!("C08:exit-0-although-an-invocation-failed:{kind}"), desc());
    }
    if !failed && o.code != Some(0) {
        return fail(format!("C08:exit-{}-although-all-invocations-succeeded:{kind}", o.code.unwrap_or(-1)), desc());
    }
    Pass::new(recs.len() >= 2 || quit_hit || failed)
        .class_if(recs.len() >= 2, "two-or-more-invocations")
        .class_if(recs.len() >= 10, "ten-or-more-invocations")
        .class_if(quit_hit, "quit")
        .class_if(failed, "failing-invocation")
        .class_if(c.execdir, "execdir")
        .class_if(c.two_roots, "two-starting-points")
        .class_if(c.root_spelling != 0, "starting-point-not-in-normal-form")
        .class_if(c.mindepth > 0, "with-mindepth")
        .class_if(c.second, "two-batching-actions")
        .class_if(reached.is_empty(), "nothing-reached")
        .class(match c.stack {
            0 => "stack-256KiB",
            1 => "stack-1MiB",
            2 => "stack-8MiB",
            _ => "stack-unlimited",
        })
        .sample(json!({"cmdline": format!("find {}", args.iter().map(|a| if a.len() > 40 { format!("{}...", a.chars().take(40).collect::<String>()) } else { a.clone() }).collect::<Vec<_>>().join(" ")), "reached": reached.len(), "invocations": recs.len(), "stack": c.stack, "script": script}))
        .ok()
}

fn glob_escape(p: &str) -> String {
    let mut s = String::new();
    for ch in p.chars() {
        if "*?[]\\".contains(ch) {
            s.push('\\');
        }
        s.push(ch);
    }
    s
}

// ---- the root directory as a starting point --------------------------------------------------------

/// "/" has no parent directory and no name: `find / -maxdepth 0 -exec[dir] rec {} +` must still hand it
/// to exactly one invocation (read-only: `Ctx::find_system_readonly`, the recorder only logs).
#[derive(Serialize, Deserialize, Debug, Clone)]
pub struct RootDirCase {
    pub execdir: bool,
    pub spelling: String,
}

fn check_rootdir(ctx: &mut Ctx, c: &RootDirCase) -> Outcome {
    use std::os::unix::fs::MetadataExt;
    let log = ctx.root.join("rec.log");
    let _ = std::fs::remove_file(&log);
    std::env::set_var("VERIF_REC_LOG", &log);
    std::env::set_var("VERIF_REC_SCRIPT", "");
    let rec = crate::engine::proc::rec_bin().to_string_lossy().into_owned();
    let args: Vec<&str> = vec![&c.spelling, "-maxdepth", "0", if c.execdir { "-execdir" } else { "-exec" }, &rec, "{}", "+"];
    let o = ctx.find_system_readonly(&args);
    if let Some(p) = o.panic {
        return fail(format!("C08:panic:{}", p.split(": ").next().unwrap_or("?")), format!("find {args:?}: {p}"));
    }
    let recs = read_rec_log(&log);
    let kind = if c.execdir { "execdir" } else { "exec" };
    let desc = format!("find {} -maxdepth 0 -{kind} rec {{}} +\nexit {} stderr {:?}\nobserved invocations {:?}", c.spelling, o.status, lossy(&o.stderr), recs.iter().map(|r| (lossy(&r.cwd), r.args.iter().map(|a| lossy(a)).collect::<Vec<_>>())).collect::<Vec<_>>());
    if recs.len() != 1 || recs[0].args.len() != 1 {
        return fail(format!("C08:root-directory:{}:{kind}", if recs.is_empty() { "never-passed-to-an-invocation" } else { "passed-more-than-once" }), desc);
    }
    let cwd = std::path::PathBuf::from(std::ffi::OsStr::from_bytes(&recs[0].cwd));
    let arg = std::path::PathBuf::from(std::ffi::OsStr::from_bytes(&recs[0].args[0]));
    let root = std::fs::metadata("/").unwrap();
    let named = std::fs::metadata(cwd.join(&arg)).ok();
    if named.map(|m| (m.dev(), m.ino())) != Some((root.dev(), root.ino())) {
        return fail(format!("C08:root-directory:argument-does-not-name-it:{kind}"), desc);
    }
    if !c.execdir && recs[0].args[0] != c.spelling.as_bytes() {
        return fail("C08:root-directory:path-text-differs:exec", desc);
    }
    if o.status != 0 {
        return fail(format!("C08:root-directory:exit-{}:{kind}", o.status), desc);
    }
    Pass::new(true).class("root-directory-as-starting-point").sample(json!({"cmdline": format!("find {} -maxdepth 0 -{kind} rec {{}} +", c.spelling), "cwd": lossy(&recs[0].cwd), "argument": lossy(&recs[0].args[0])})).ok()
}

// ---- a directory whose path is as long as a path can be ------------------------------------------------

/// `-execdir CMD {} +` (and `;`) on two files in a directory whose relative path has exactly `len`
/// bytes (PATH_MAX is 4096 including the terminator).
#[derive(Serialize, Deserialize, Debug, Clone)]
pub struct LongDirCase {
    pub len: usize,
    pub plus: bool,
}

fn check_longdir(ctx: &mut Ctx, c: &LongDirCase) -> Outcome {
    ctx.fresh_case_dir();
    // c/L/<250 x 'd'>/.../<rest>
    let mut p = String::from("c/L");
    while p.len() + 252 < c.len {
        p.push('/');
        p.push_str(&"d".repeat(250));
    }
    let rest = c.len - p.len() - 1;
    if rest == 0 || rest > 255 {
        return Pass::discard("length not reachable with 250-byte components");
    }
    p.push('/');
    p.push_str(&"e".repeat(rest));
    if std::fs::create_dir_all(&p).is_err() {
        return Pass::discard("cannot create the directory chain");
    }
    // the files' own paths may be longer than a path can be: create them relative to the directory
    {
        use std::os::fd::AsRawFd;
        let Ok(d) = std::fs::File::open(&p) else { return Pass::discard("cannot open the directory") };
        for n in [c"f", c"g"] {
            let fd = unsafe { libc::openat(d.as_raw_fd(), n.as_ptr(), libc::O_CREAT | libc::O_WRONLY, 0o644) };
            if fd < 0 {
                return Pass::discard("cannot create a file in the directory");
            }
            unsafe { libc::close(fd) };
        }
    }
    let log = ctx.root.join("rec.log");
    let _ = std::fs::remove_file(&log);
    let rec = rec_bin().to_string_lossy().into_owned();
    let mut args: Vec<OsString> = vec!["c/L".into(), "-sorted".into(), "-type".into(), "f".into(), "-execdir".into(), rec.into(), "{}".into()];
    args.push(if c.plus { "+" } else { ";" }.into());
    let o = ctx.run_bin(&find_bin(), &args, &BinOpts { env: vec![("VERIF_REC_LOG".into(), log.clone().into_os_string())], ..Default::default() });
    let recs = read_rec_log(&log);
    let delivered: Vec<String> = recs.iter().flat_map(|r| r.args.iter().map(|a| lossy(a))).collect();
    let desc = format!("find c/L -sorted -type f -execdir rec {{}} {}   (directory path of {} bytes)\nexit {:?} stderr {:?}\ninvocations {} delivering {delivered:?}", if c.plus { "+" } else { ";" }, p.len(), o.code, lossy(&o.stderr[..o.stderr.len().min(300)]), recs.len());
    // (not canonicalize(): the absolute path is longer than PATH_MAX; the sandbox root is canonical)
    let want_cwd = format!("{}/{p}", ctx.root.to_string_lossy());
    if delivered != ["./f", "./g"] || recs.iter().any(|r| lossy(&r.cwd) != want_cwd) || o.code != Some(0) {
        return fail(format!("C08:execdir:directory-path-of-maximal-length:{}", if c.plus { "plus" } else { "semicolon" }), desc);
    }
    Pass::new(c.len >= 4090).class("long-directory-path").sample(json!({"directory_path_bytes": p.len(), "form": if c.plus { "+" } else { ";" }})).ok()
}

fn run(w: &mut Worker) {
    w.regress::<Case>("batches", check);
    let big = w.tier == crate::engine::Tier::Thorough;
    w.random("batches", w.tier.pick(2_400, 30_000), (40, 120), 60, move |g| gen_case(g, big), check);
    w.regress::<LongDirCase>("long-directory", check_longdir);
    let ld: Vec<LongDirCase> = [1000usize, 4000, 4090, 4092, 4093, 4094, 4095].iter().flat_map(|l| [true, false].map(|plus| LongDirCase { len: *l, plus })).collect();
    w.exhaustive("long-directory", "-execdir rec {} + / ; on two files in a directory whose relative path has 1000 ... 4095 bytes", ld.into_iter(), check_longdir);
    w.regress::<RootDirCase>("root-directory", check_rootdir);
    let rd: Vec<RootDirCase> = ["/", "//", "/."].iter().flat_map(|sp| [false, true].map(|execdir| RootDirCase { execdir, spelling: sp.to_string() })).collect();
    w.exhaustive("root-directory", "find / (also //, /.) -maxdepth 0 -exec|-execdir rec {} + : one invocation, whose argument names the root directory", rd.into_iter(), check_rootdir);
}

fn replay(w: &mut Worker, sub: &str, v: Value) -> Outcome {
    if sub == "long-directory" {
        return check_longdir(&mut w.ctx, &decode(v));
    }
    if sub == "root-directory" {
        return check_rootdir(&mut w.ctx, &decode(v));
    }
    check(&mut w.ctx, &decode(v))
}
