//! C01 — expression semantics: precedence, short-circuit, default -print, -quit.

use super::{decode, PropDef};
use crate::engine::expr::{self, Evaluator, Ex, Parser, Prim, RenderStyle};
use crate::engine::fsx::{self, gen_tree, ref_walk, FollowMode, Kind, Node, TreeParams, TreeSpec, WalkOpts};
use crate::engine::proc::{lossy, BinOpts, Ctx};
use crate::engine::{fail, inconclusive, Gen, Outcome, Pass, Worker};
use serde::{Deserialize, Serialize};
use serde_json::{json, Value};

pub static DEF: PropDef = PropDef {
    id: "C01",
    rule: "random: expression ASTs (depth<=6, <=14 primaries over tests/actions/-prune/-quit/options) rendered with minimal and redundant parentheses and all operator spellings, -name operands that look like operators or primaries ( ( ) ! , -o -a -print ; + {} ), on generated trees with 1-2 starting points; exhaustive: every token sequence up to the stated length over {-true,-false,A1,A2,-quit,!,-a,-o,',',(,)} that the reference recogniser accepts, on a fixed tree. Oracle: reference parse + evaluation over an independent walk; stdout, -fprint* files and exit status compared byte for byte. Non-trivial = >=2 operator kinds among ! -a -o , AND (a short-circuit skipped an action, or an action sits under a negation, or -quit fired before the last entry). Distinct = distinct case JSON.",
    assumptions: &[
        "-sorted is prepended so that the visit order is defined (it is an always-true primary and does not change the value of the expression)",
        "find runs in process through find_main (1 in 20 random cases also through the built binary); harness and library built with debug assertions and overflow checks",
        "-help/-version, -files0-from, -delete, -follow are not generated here (covered by C18/C10/C02)",
    ],
    run,
    replay,
    fuzz: Some(fuzz_one),
};

#[derive(Serialize, Deserialize, Debug, Clone)]
pub struct Case {
    pub tree: TreeSpec,
    pub roots: Vec<String>,
    pub ex: Option<Ex>,
    pub style: Vec<u8>,
    pub via_binary: bool,
}

#[derive(Serialize, Deserialize, Debug, Clone)]
pub struct TokCase {
    pub tokens: Vec<String>,
}

struct GenCtx {
    prims: usize,
    labels: usize,
    files: usize,
    names: Vec<String>,
}

/// name of the output file of a file-writing action: a new one, or (1 in 3) one that an earlier
/// action of the same expression already writes to - their records then share the file, in evaluation order
fn out_file(g: &mut Gen, c: &mut GenCtx) -> String {
    if c.files > 0 && g.chance(1, 3) {
        return format!("c/out{}", g.usize_in(1, c.files));
    }
    c.files += 1;
    format!("c/out{}", c.files)
}

fn gen_prim(g: &mut Gen, c: &mut GenCtx) -> Prim {
    c.prims += 1;
    match g.weighted(&[3, 3, 5, 2, 1, 4, 1, 4, 1, 1, 1, 1, 2, 2, 2]) {
        0 => Prim::True,
        1 => Prim::False,
        2 => {
            let base = if c.names.is_empty() { "a".to_string() } else { g.pick(&c.names).clone() };
            let first: String = base.chars().take(1).collect();
            let last: String = base.chars().rev().take(1).collect();
            // an operand that looks like an operator or a primary is still an operand
            if g.chance(1, 8) {
                return Prim::Name(g.pick(&["(", ")", "!", ",", "-o", "-a", "-not", "-print", "-prune", "-quit", ";", "+", "{}"]).to_string(), g.chance(1, 6));
            }
            let pat = match g.below(6) {
                0 => base,
                1 => format!("{first}*"),
                2 => format!("*{last}"),
                3 => format!("*{first}*"),
                4 => "?".to_string(),
                _ => "*".to_string(),
            };
            Prim::Name(pat, g.chance(1, 6))
        }
        3 => Prim::Type(g.pick(&['f', 'd', 'l'])),
        4 => {
            let base = if c.names.is_empty() { "a".to_string() } else { g.pick(&c.names).clone() };
            Prim::Path(format!("*{base}*"))
        }
        5 => Prim::Print,
        6 => Prim::Print0,
        7 => {
            c.labels += 1;
            Prim::Printf(format!("k{}", c.labels))
        }
        8 => Prim::Fprint(out_file(g, c)),
        9 => {
            c.labels += 1;
            Prim::Fprintf(out_file(g, c), format!("k{}", c.labels))
        }
        10 => Prim::Fprint0(out_file(g, c)),
        11 => {
            match g.below(6) {
                0 | 1 => Prim::Exec(g.bool()),
                2 => Prim::ExecPlus(g.bool()),
                _ => Prim::True,
            }
        }
        12 => Prim::Prune,
        13 => Prim::Quit,
        _ => {
            let s = |x: &str| x.to_string();
            Prim::Opt(match g.below(9) {
                0 => vec![s("-depth")],
                1 => vec![s("-d")],
                2 => vec![s("-maxdepth"), g.below(4).to_string()],
                3 => vec![s("-mindepth"), g.below(3).to_string()],
                4 => vec![s("-noleaf")],
                5 => vec![s("-daystart")],
                6 => vec![s("-xdev")],
                7 => vec![s("-mount")],
                _ => vec![s("-regextype"), s(g.pick(&["emacs", "posix-basic", "posix-extended", "grep", "ed", "sed"]))],
            })
        }
    }
}

fn gen_ex(g: &mut Gen, depth: usize, c: &mut GenCtx) -> Ex {
    if depth == 0 || c.prims >= 13 {
        return Ex::P(gen_prim(g, c));
    }
    match g.weighted(&[4, 2, 5, 4, 2]) {
        0 => Ex::P(gen_prim(g, c)),
        1 => Ex::Not(Box::new(gen_ex(g, depth - 1, c))),
        2 => Ex::And(Box::new(gen_ex(g, depth - 1, c)), Box::new(gen_ex(g, depth - 1, c))),
        3 => Ex::Or(Box::new(gen_ex(g, depth - 1, c)), Box::new(gen_ex(g, depth - 1, c))),
        _ => Ex::List(Box::new(gen_ex(g, depth - 1, c)), Box::new(gen_ex(g, depth - 1, c))),
    }
}

pub fn gen_case(g: &mut Gen) -> Case {
    let params = TreeParams { max_nodes: 22, max_depth: 4, ..TreeParams::default() };
    let mut tree = gen_tree(g, "c/r", &params);
    let mut roots = vec!["c/r".to_string()];
    if g.chance(1, 3) {
        let t2 = gen_tree(g, "c/s", &TreeParams { max_nodes: 6, max_depth: 2, ..TreeParams::default() });
        tree.nodes.extend(t2.nodes);
        roots.push("c/s".to_string());
    }
    let names: Vec<String> = tree.nodes.iter().map(|n| n.name().to_string()).collect();
    let mut c = GenCtx { prims: 0, labels: 0, files: 0, names };
    let ex = if g.chance(1, 40) {
        None
    } else {
        let d = g.usize_in(1, 6);
        Some(gen_ex(g, d, &mut c))
    };
    let style: Vec<u8> = (0..48).map(|_| g.below(256) as u8).collect();
    let via_binary = g.chance(1, 20);
    Case { tree, roots, ex, style, via_binary }
}

fn tokens_of(case: &Case) -> Vec<String> {
    let mut t = vec!["-sorted".to_string()];
    if let Some(ex) = &case.ex {
        let mut st = RenderStyle { choices: &case.style, pos: 0 };
        expr::render(ex, &mut st, &mut t);
    }
    t
}

/// Shared comparison: run find on `roots` + `tokens`, compare with the reference evaluation.
fn check_tokens(ctx: &mut Ctx, roots: &[String], tokens: &[String], via_binary: bool) -> Outcome {
    check_tokens_with(Some(ctx), roots, tokens, via_binary)
}

/// `ctx == None`: run find in process without a sandbox context (fuzz target)
fn check_tokens_with(mut ctx: Option<&mut Ctx>, roots: &[String], tokens: &[String], via_binary: bool) -> Outcome {
    let parsed = match Parser::new(tokens).parse_all() {
        Ok(Some(e)) => e,
        Ok(None) => Ex::P(Prim::True),
        Err(e) => inconclusive(&format!("C01 generator produced a token vector the reference parser rejects: {tokens:?}: {e:?}")),
    };
    let go = expr::global_opts(&parsed);
    let wo = WalkOpts { follow: FollowMode::P, depth_first: go.depth_first, min_depth: go.min_depth, max_depth: go.max_depth.unwrap_or(usize::MAX), as_other: false };
    let mut ev = Evaluator::new(&parsed, go.depth_first);
    let mut events = vec![];
    let mut visited = 0u64;
    let mut total_entries = 0u64;
    for r in roots {
        total_entries += fsx::ref_paths(r, &wo).0.len() as u64;
    }
    for r in roots {
        let cont = ref_walk(r, &wo, &mut |e| {
            visited += 1;
            ev.visit(e)
        }, &mut events);
        if !cont {
            break;
        }
    }
    if ev.out.unmodelled {
        inconclusive("C01 generated an unmodelled primary");
    }
    let mut args: Vec<&str> = roots.iter().map(|s| s.as_str()).collect();
    args.extend(tokens.iter().map(|s| s.as_str()));
    let cmdline = format!("find {}", args.iter().map(|a| format!("{a:?}")).collect::<Vec<_>>().join(" "));
    let (status, stdout, stderr, panic) = match ctx.as_mut() {
        None => {
            let (st, out) = crate::engine::proc::find_plain(&args);
            (st, out, vec![], None)
        }
        Some(ctx) if via_binary => {
            let o = ctx.run_bin(&crate::engine::proc::find_bin(), &args, &BinOpts::default());
            let abn = if o.ordinary() { None } else { Some(format!("binary ended abnormally: code {:?} signal {:?}", o.code, o.signal)) };
            (o.code.unwrap_or(-1), o.stdout, o.stderr, abn)
        }
        Some(ctx) => {
            let o = ctx.find(&args);
            (o.status, o.stdout, o.stderr, o.panic)
        }
    };
    if let Some(p) = panic {
        return fail(format!("C01:panic:{}", p.split(": ").next().unwrap_or("?")), format!("{cmdline}\npanic: {p}"));
    }
    let has_action = parsed.has_action();
    let sigctx = || {
        let k = parsed.op_kinds();
        format!("ops={}{}{}{}{}{}", if k & 1 != 0 { "!" } else { "" }, if k & 2 != 0 { "a" } else { "" }, if k & 4 != 0 { "o" } else { "" }, if k & 8 != 0 { "," } else { "" }, if ev.out.quit_fired { "+quit" } else { "" }, if !has_action { "+defaultprint" } else { "" })
    };
    if stdout != ev.out.stdout {
        return fail(
            format!("C01:stdout-differs:{}", sigctx()),
            format!("{cmdline}\nexpected stdout: {:?}\nactual stdout:   {:?}\nstderr: {:?}", lossy(&ev.out.stdout), lossy(&stdout), lossy(&stderr)),
        );
    }
    for (f, want) in &ev.out.files {
        let got = std::fs::read(f).unwrap_or_default();
        if &got != want {
            return fail(format!("C01:fprint-file-differs:{}", sigctx()), format!("{cmdline}\nfile {f}: expected {:?}\nactual {:?}", lossy(want), lossy(&got)));
        }
    }
    // (a failing `-exec false {} +` batch is the only source of a non-zero status in these trees)
    if (status != 0) != ev.out.failing_batch {
        return fail(if status != 0 { "C01:nonzero-exit" } else { "C01:exit-0-although-a-batch-failed" }, format!("{cmdline}\nexit status {status}, stderr {:?}", lossy(&stderr)));
    }
    let kinds = parsed.op_kinds().count_ones();
    let mut action_under_not = false;
    fn under_not(e: &Ex, neg: bool, hit: &mut bool) {
        match e {
            Ex::P(p) => {
                if neg && p.is_action() {
                    *hit = true
                }
            }
            Ex::Not(a) => under_not(a, true, hit),
            Ex::And(a, b) | Ex::Or(a, b) | Ex::List(a, b) => {
                under_not(a, neg, hit);
                under_not(b, neg, hit)
            }
        }
    }
    under_not(&parsed, false, &mut action_under_not);
    let quit_early = ev.out.quit_fired && visited < total_entries;
    let nontrivial = kinds >= 2 && (ev.out.skipped_actions > 0 || action_under_not || quit_early);
    Pass::new(nontrivial)
        .class_if(ev.out.skipped_actions > 0, "short-circuit-skipped-action")
        .class_if(action_under_not, "action-under-negation")
        .class_if(quit_early, "quit-before-last-entry")
        .class_if(!has_action, "default-print")
        .class_if(ev.out.prune_fired > 0 && !go.depth_first, "prune-effective")
        .class_if(go.depth_first, "depth-first")
        .class_if(go.max_depth.is_some() || go.min_depth > 0, "depth-bounds")
        .class_if(kinds >= 3, "three-or-more-operator-kinds")
        .class_if(via_binary, "via-binary")
        .class_if(roots.len() > 1, "two-starting-points")
        .class_if(!ev.out.files.is_empty(), "fprint-files")
        .sample(json!({"cmdline": cmdline, "entries": total_entries}))
        .ok()
}

pub fn check(ctx: &mut Ctx, case: &Case) -> Outcome {
    ctx.fresh_case_dir();
    case.tree.build();
    let tokens = tokens_of(case);
    // cross-check: the generator's AST and the reference parse of its rendering agree
    if let Some(ex) = &case.ex {
        let parsed = Parser::new(&tokens[1..]).parse_all();
        match parsed {
            Ok(Some(p)) => {
                if flatten(&p) != flatten(ex) {
                    inconclusive(&format!("C01 model self-check: rendering {tokens:?} does not parse back to the generated AST"));
                }
            }
            other => inconclusive(&format!("C01 model self-check: {tokens:?} -> {other:?}")),
        }
    }
    check_tokens(ctx, &case.roots, &tokens, case.via_binary)
}

/// structure modulo associativity of the binary operators (which is semantically irrelevant)
fn flatten(e: &Ex) -> String {
    fn go(e: &Ex, out: &mut String) {
        match e {
            Ex::P(p) => out.push_str(&format!("{:?}", p.tokens())),
            Ex::Not(a) => {
                out.push_str("!(");
                go(a, out);
                out.push(')');
            }
            Ex::And(..) | Ex::Or(..) | Ex::List(..) => {
                let tag = match e {
                    Ex::And(..) => "&",
                    Ex::Or(..) => "|",
                    _ => ",",
                };
                let mut items = vec![];
                collect(e, tag, &mut items);
                out.push('(');
                for (i, it) in items.iter().enumerate() {
                    if i > 0 {
                        out.push_str(tag);
                    }
                    go(it, out);
                }
                out.push(')');
            }
        }
    }
    fn collect<'a>(e: &'a Ex, tag: &str, items: &mut Vec<&'a Ex>) {
        match (e, tag) {
            (Ex::And(a, b), "&") | (Ex::Or(a, b), "|") | (Ex::List(a, b), ",") => {
                collect(a, tag, items);
                collect(b, tag, items);
            }
            _ => items.push(e),
        }
    }
    let mut s = String::new();
    go(e, &mut s);
    s
}

// ---- exhaustive token enumeration ------------------------------------------

const ALPHABET: &[&[&str]] = &[&["-true"], &["-false"], &["-printf", "1:%p\\n"], &["-printf", "2:%p\\n"], &["-quit"], &["!"], &["-a"], &["-o"], &[","], &["("], &[")"]];

fn fixed_tree() -> TreeSpec {
    let mut t = TreeSpec::default();
    for (p, k) in [("x", Kind::Dir), ("x/r", Kind::Dir), ("x/r/a", Kind::Dir), ("x/r/a/f", Kind::File), ("x/r/b", Kind::File), ("x/r/c", Kind::Dir), ("x/r/l", Kind::Link("a".into()))] {
        t.nodes.push(Node::new(p, k));
    }
    t
}

struct TokenSeqs {
    len: usize,
    max_len: usize,
    idx: Vec<usize>,
    done: bool,
}

impl Iterator for TokenSeqs {
    type Item = TokCase;
    fn next(&mut self) -> Option<TokCase> {
        loop {
            if self.done {
                return None;
            }
            let toks: Vec<String> = self.idx.iter().flat_map(|i| ALPHABET[*i].iter().map(|s| s.to_string())).collect();
            // advance odometer
            let mut k = self.len;
            loop {
                if k == 0 {
                    self.len += 1;
                    if self.len > self.max_len {
                        self.done = true;
                    } else {
                        self.idx = vec![0; self.len];
                    }
                    break;
                }
                k -= 1;
                self.idx[k] += 1;
                if self.idx[k] < ALPHABET.len() {
                    break;
                }
                self.idx[k] = 0;
            }
            if matches!(Parser::new(&toks).parse_all(), Ok(Some(_))) {
                return Some(TokCase { tokens: toks });
            }
        }
    }
}

fn check_tok(ctx: &mut Ctx, c: &TokCase) -> Outcome {
    if std::fs::symlink_metadata("x").is_err() {
        fixed_tree().build();
    }
    let mut tokens = vec!["-sorted".to_string()];
    tokens.extend(c.tokens.iter().cloned());
    check_tokens(ctx, &["x/r".to_string()], &tokens, false)
}

// ---- which primaries count as actions (default -print applies iff there is none) -----------

#[derive(Serialize, Deserialize, Debug, Clone)]
pub struct ActionCase {
    /// index into action_table()
    pub which: usize,
    /// 0 "-false A"; 1 "-true -o A"; 2 "! ( -false A )"; 3 "( -false -o -false ) , -false A" hmm: see code
    pub shape: u8,
}

/// (tokens, is an action per the statement)
fn action_table() -> Vec<(Vec<String>, bool)> {
    let s = |x: &str| x.to_string();
    let rec = crate::engine::proc::rec_bin().to_string_lossy().into_owned();
    vec![
        (vec![s("-print")], true),
        (vec![s("-print0")], true),
        (vec![s("-printf"), s("X:%p\\n")], true),
        (vec![s("-fprint"), s("c/out1")], true),
        (vec![s("-fprint0"), s("c/out1")], true),
        (vec![s("-fprintf"), s("c/out1"), s("%p\\n")], true),
        (vec![s("-ls")], true),
        (vec![s("-fls"), s("c/out1")], true),
        (vec![s("-exec"), rec.clone(), s("{}"), s(";")], true),
        (vec![s("-execdir"), rec.clone(), s("{}"), s(";")], true),
        (vec![s("-exec"), rec.clone(), s("{}"), s("+")], true),
        (vec![s("-execdir"), rec, s("{}"), s("+")], true),
        (vec![s("-delete")], true),
        (vec![s("-prune")], false),
        (vec![s("-quit")], false),
        (vec![s("-true")], false),
        (vec![s("-depth")], false),
        (vec![s("-maxdepth"), s("5")], false),
    ]
}

/// The action is placed where evaluation never reaches it, so the only observable is whether the
/// implied -print was added: stdout must be empty when the primary is an action and must list every
/// entry when it is not; nothing may be executed or removed either way.
fn check_action(ctx: &mut Ctx, c: &ActionCase) -> Outcome {
    use crate::engine::fsx::snapshot;
    ctx.fresh_case_dir();
    let mut t = TreeSpec::default();
    for (p, k) in [("c/r", Kind::Dir), ("c/r/a", Kind::Dir), ("c/r/a/f", Kind::File), ("c/r/b", Kind::File), ("c/r/e", Kind::Dir), ("c/r/l", Kind::Link("a".into()))] {
        t.nodes.push(Node::new(p, k));
    }
    t.build();
    let table = action_table();
    let (act, is_action) = &table[c.which % table.len()];
    let s = |x: &str| x.to_string();
    let mut tokens: Vec<String> = vec![s("-sorted")];
    // every shape yields TRUE on every entry without ever evaluating `act`
    match c.shape {
        0 => {
            tokens.extend([s("-true"), s("-o")]);
            tokens.extend(act.iter().cloned());
        }
        1 => {
            tokens.extend([s("!"), s("("), s("-false")]);
            tokens.extend(act.iter().cloned());
            tokens.push(s(")"));
        }
        2 => {
            tokens.extend([s("("), s("-false")]);
            tokens.extend(act.iter().cloned());
            tokens.extend([s(")"), s(","), s("-true")]);
        }
        _ => {
            tokens.extend([s("-true"), s("-o"), s("("), s("!")]);
            tokens.extend(act.iter().cloned());
            tokens.push(s(")"));
        }
    }
    let log = ctx.root.join("rec.log");
    let _ = std::fs::remove_file(&log);
    std::env::set_var("VERIF_REC_LOG", &log);
    std::env::set_var("VERIF_REC_SCRIPT", "");
    let before = snapshot("c/r");
    let mut args: Vec<&str> = vec!["c/r"];
    args.extend(tokens.iter().map(|t| t.as_str()));
    let o = ctx.find(&args);
    let after = snapshot("c/r");
    let desc = format!("find {args:?}\nexit {} stdout {:?} stderr {:?}", o.status, lossy(&o.stdout), lossy(&o.stderr));
    if let Some(p) = o.panic {
        return fail(format!("C01:panic:{}", p.split(": ").next().unwrap_or("?")), format!("{desc}\n{p}"));
    }
    if before != after || std::fs::metadata(&log).map(|m| m.len() > 0).unwrap_or(false) {
        return fail(format!("C01:unreachable-action-took-effect:{}", act[0]), desc);
    }
    // -depth / -delete change the order, not the set: compare as sorted line sets
    let mut got: Vec<String> = lossy(&o.stdout).lines().map(|l| l.to_string()).collect();
    got.sort();
    let mut all: Vec<String> = before.keys().cloned().collect();
    all.sort();
    let want: Vec<String> = if *is_action { vec![] } else { all };
    if got != want || o.status != 0 {
        let what = if *is_action { "default-print-added-although-expression-has-an-action" } else { "default-print-missing-although-expression-has-no-action" };
        return fail(format!("C01:{what}:{}", act[0]), desc);
    }
    Pass::new(true).class("has-action-rule").class_if(*is_action, "action-primary").sample(json!({"cmdline": format!("find {}", args.join(" ")), "is_action": is_action})).ok()
}

fn run(w: &mut Worker) {
    w.regress::<Case>("expr", check);
    let n_actions = action_table().len();
    let mut ac = vec![];
    for which in 0..n_actions {
        for shape in 0..4u8 {
            ac.push(ActionCase { which, shape });
        }
    }
    w.exhaustive("has-action", "every action primary (and five non-actions) x four placements in which it is never evaluated (unreachable, nested, negated): the implied -print is added iff the primary is not an action", ac.into_iter(), check_action);
    w.regress::<TokCase>("tokens", check_tok);
    let max_len = w.tier.pick(6, 7);
    w.exhaustive("tokens", &format!("all accepted token sequences of length 1..={max_len} over an 11-token alphabet"), TokenSeqs { len: 1, max_len, idx: vec![0], done: false }, check_tok);
    w.random("expr", w.tier.pick(40_000, 600_000), (40, 400), 2000, gen_case, check);
}

fn replay(w: &mut Worker, sub: &str, v: Value) -> Outcome {
    if sub == "has-action" {
        return check_action(&mut w.ctx, &decode(v));
    }
    match sub {
        "tokens" => check_tok(&mut w.ctx, &decode(v)),
        _ => check(&mut w.ctx, &decode(v)),
    }
}

/// libFuzzer entry: the bytes are the choice stream of the expression/tree generator; the tree is
/// rebuilt under a private tmpfs directory and find runs in process.  Oracle: the reference
/// parser/evaluator/walker, exactly as in the random sub-run.
pub fn fuzz_one(data: &[u8]) -> Option<crate::engine::Violation> {
    static INIT: std::sync::Once = std::sync::Once::new();
    INIT.call_once(|| {
        let base = if std::path::Path::new("/dev/shm").is_dir() { "/dev/shm".to_string() } else { std::env::temp_dir().to_string_lossy().into_owned() };
        let dir = format!("{base}/verif-fuzz-C01-{}", std::process::id());
        let _ = std::fs::remove_dir_all(&dir);
        std::fs::create_dir_all(&dir).expect("fuzz sandbox");
        std::env::set_current_dir(&dir).expect("chdir fuzz sandbox");
        std::env::set_var("PATH", crate::engine::proc::safe_path_dir());
    });
    if data.len() < 8 {
        return None;
    }
    let words = crate::words_of(data);
    let mut g = Gen::new(&words);
    let case = gen_case(&mut g);
    if std::fs::symlink_metadata("c").is_ok() {
        crate::engine::proc::force_remove(std::path::Path::new("c"));
    }
    std::fs::create_dir("c").ok()?;
    case.tree.build();
    let tokens = tokens_of(&case);
    crate::engine::violation_of(check_tokens_with(None, &case.roots, &tokens, false))
}
