//! C12 — -name/-path/-lname (and -i forms) equal POSIX fnmatch on the whole string.

use super::{decode, PropDef};
use crate::engine::fsx::{ref_paths, Ev, FollowMode, RefEntry, WalkOpts};
use crate::engine::proc::{lossy, Ctx};
use crate::engine::{fail, Gen, Outcome, Pass, Worker};
use findutils::find::matchers::verif_hooks::{glob_match_error, glob_match_many};
use serde::{Deserialize, Serialize};
use serde_json::{json, Value};
use std::ffi::CString;

pub static DEF: PropDef = PropDef {
    id: "C12",
    rule: "tier A (matcher behind -name/-path/-lname through the verif-hooks entry point vs glibc fnmatch(3) in locale C.UTF-8, flags 0 and FNM_CASEFOLD): exhaustive over every pattern of <= 4 (thorough 5) symbols from {a b * ? [ ] ! - \\ . /} x every subject of <= 4 symbols from {a b . / - ] NL}; random patterns of <= 16 pieces (literals incl. every regex metacharacter . ^ $ + ( ) { } |, '*', '?', escapes, bracket expressions with ranges, '!' negation, ']' first, each of the twelve character classes [[:alpha:]] ... [[:xdigit:]] (plain, negated, with further members) paired with each of its ASCII members 1..127, stray '[' ']' '!', an unmatched '[' followed by text of the form [.a.] / [=a=] and regex operators, trailing backslash, multi-byte characters) and, in a sub-run of its own, patterns with 2-8 '*' between short texts against subjects of up to several thousand characters built to match with many false starts; against subjects derived from the pattern (a string that matches by construction and its one-edit neighbours: extra prefix/suffix, changed case, inserted '/', leading '.', embedded newline, dropped character, one character replaced by a letter pair such as ff / ss / st that a single character folds to) plus random strings. tier B (end to end): a directory of files named by slash-free subjects and of symbolic links whose targets are arbitrary subjects; find DIR -name|-iname|-path|-ipath|-wholename|-lname|-ilname PAT -print0 in process; the selected set must equal {entries whose basename / printed path / link target fnmatch-es}. tier C (which string is matched): a fixed tree (directories, files, a dot file, links to a file, to a directory, dangling; links as starting points) walked from 29 starting-point spellings (plain, trailing slashes, /., /.., //, ./, '.', through links) under -P/-H/-L with -maxdepth 0/1/2/none; the pattern is a literal / '*'+tail / head+'*' / upper-cased / bracketed / '?' form of a string of one entry (the named string itself, its last ordinary component, whole path, last component, link text, path without trailing slashes, name of the file it resolves to); expected: exactly the entries of the reference walk whose last path component (trailing slashes dropped; '.' and '..' are components) / path as printed / link text (only where the follow mode leaves the entry a link) fnmatch-es. Sub-run caseless-fresh-process: the find binary, one process per case, a single -iname/-ipath/-ilname test whose pattern (0-3 stars, optionally a bracket) holds a letter pair ss/ff/fi/fl/st; entries named with the pair in three cases (selected) and with the single character full case folding maps to it (never selected). Pairs on which fnmatch reports an error are skipped and counted. Non-trivial = the pattern contains a wildcard or bracket AND a backslash or regex metacharacter, and both a matching and a non-matching subject were tried. Distinct = distinct (pattern, flags) pair.",
    assumptions: &[
        "glibc fnmatch(3) with flags 0 / FNM_CASEFOLD in locale C.UTF-8 is POSIX fnmatch() for the patterns generated",
        "not generated / not compared (POSIX leaves them unspecified or implementations legitimately differ): '^' first in a bracket expression, a backslash inside a bracket expression, reversed ranges, collating symbols and equivalence classes inside a matched bracket expression (and, anywhere, ones of more than one character, at which glibc gives up on the whole pattern), case folding of non-ASCII letters, subjects or patterns that are not valid UTF-8",
    ],
    run,
    replay,
    fuzz: Some(fuzz_one),
};

const FNM_CASEFOLD: i32 = 1 << 4;

fn set_locale() {
    let l = CString::new("C.UTF-8").unwrap();
    unsafe {
        if libc::setlocale(libc::LC_ALL, l.as_ptr()).is_null() {
            crate::engine::inconclusive("setlocale(C.UTF-8) failed");
        }
    }
}

/// Some(true) match, Some(false) no match, None error / outside the compared domain.
///
/// glibc's fnmatch retries in single-byte mode when the wide-character match fails (so '??'
/// matches one two-byte character).  To get the character-level answer the statement is about,
/// every non-ASCII character of pattern and subject is first replaced, consistently, by a control
/// character that occurs in neither; the comparison is then run on pure ASCII strings.
fn fnm(pattern: &str, subject: &str, casefold: bool) -> Option<bool> {
    // "a pattern ending in a lone backslash matches nothing" (the statement; fnmatch() itself may
    // report this as an error instead of FNM_NOMATCH)
    if pattern.chars().rev().take_while(|c| *c == '\\').count() % 2 == 1 {
        return Some(false);
    }
    let (p, s) = if pattern.is_ascii() && subject.is_ascii() {
        (pattern.to_string(), subject.to_string())
    } else {
        // classes would treat the placeholder differently from the letter it stands for
        if pattern.contains("[:") {
            return None;
        }
        // a range could contain the placeholder although it does not contain the character it stands for
        if pattern.contains('[') && pattern.contains('-') {
            return None;
        }
        let mut map: Vec<(char, char)> = vec![];
        let free: Vec<char> = (1u8..=31).filter(|b| ![9u8, 10, 11, 12, 13].contains(b)).map(|b| b as char).filter(|c| !pattern.contains(*c) && !subject.contains(*c)).collect();
        let mut tr = |t: &str| -> Option<String> {
            let mut out = String::new();
            for ch in t.chars() {
                if ch.is_ascii() {
                    out.push(ch);
                } else {
                    let m = match map.iter().find(|(a, _)| *a == ch) {
                        Some((_, b)) => *b,
                        None => {
                            let b = *free.get(map.len())?;
                            map.push((ch, b));
                            b
                        }
                    };
                    out.push(m);
                }
            }
            Some(out)
        };
        (tr(pattern)?, tr(subject)?)
    };
    let (Ok(cp), Ok(cs)) = (CString::new(p), CString::new(s)) else { return None };
    let r = unsafe { libc::fnmatch(cp.as_ptr(), cs.as_ptr(), if casefold { FNM_CASEFOLD } else { 0 }) };
    match r {
        0 => Some(true),
        libc::FNM_NOMATCH => Some(false),
        _ => None,
    }
}

/// features of a pattern that take a pair outside the compared domain
#[derive(Default, Debug)]
struct Features {
    excluded: Option<&'static str>,
    wildcard: bool,
    bracket: bool,
    backslash: bool,
    regex_meta: bool,
    /// a range whose endpoints are not both lower-case letters / both upper-case / both non-letters:
    /// what it contains under case folding is not specified
    casefold_open: bool,
}

/// scan the pattern as POSIX describes; report constructs whose meaning is unspecified
fn features(p: &str) -> Features {
    let c: Vec<char> = p.chars().collect();
    let mut f = Features::default();
    let mut i = 0;
    while i < c.len() {
        match c[i] {
            '\\' => {
                f.backslash = true;
                i += 2;
            }
            '*' | '?' => {
                f.wildcard = true;
                i += 1;
            }
            '[' => {
                // a backslash between this '[' and the next ']' (wherever the expression really
                // ends): implementations disagree on whether it quotes inside a bracket expression
                if let Some(close) = c[i + 1..].iter().skip(1).position(|ch| *ch == ']') {
                    if c[i + 1..i + 2 + close].contains(&'\\') {
                        f.excluded.get_or_insert("backslash inside bracket expression");
                    }
                }
                // find the end of a bracket expression
                let mut j = i + 1;
                if j < c.len() && (c[j] == '!' || c[j] == '^') {
                    if c[j] == '^' {
                        f.excluded.get_or_insert("caret first in bracket expression");
                    }
                    j += 1;
                }
                if j < c.len() && c[j] == ']' {
                    j += 1;
                }
                let start = j;
                let mut closed = None;
                // only meaningful if this '[' turns out to be matched (else it is a literal and the
                // text after it is scanned again on its own)
                let mut collating = false;
                while j < c.len() {
                    if c[j] == '[' && j + 1 < c.len() && matches!(c[j + 1], ':' | '.' | '=') {
                        let d = c[j + 1];
                        if d != ':' {
                            collating = true;
                        } else {
                            let rest: String = c[j + 2..].iter().collect();
                            const NAMES: &[&str] = &["alpha:]", "digit:]", "alnum:]", "upper:]", "lower:]", "space:]", "blank:]", "punct:]", "print:]", "graph:]", "cntrl:]", "xdigit:]"];
                            if !NAMES.iter().any(|n| rest.starts_with(n)) {
                                f.excluded.get_or_insert("unknown or unterminated character class name");
                            }
                        }
                        // find d ]
                        let mut k = j + 2;
                        let mut found = false;
                        while k + 1 < c.len() {
                            if c[k] == d && c[k + 1] == ']' {
                                found = true;
                                break;
                            }
                            k += 1;
                        }
                        if found {
                            if d != ':' && k != j + 3 {
                                // glibc gives up on the whole pattern (FNM_NOMATCH) at a collating
                                // element of more than one character, even where the enclosing '['
                                // turns out to be unmatched and hence a literal
                                f.excluded.get_or_insert("collating symbol of more than one character");
                            }
                            j = k + 2;
                            continue;
                        } else {
                            f.excluded.get_or_insert("unterminated class inside bracket expression");
                            j += 1;
                            continue;
                        }
                    }
                    if c[j] == ']' {
                        closed = Some(j);
                        break;
                    }
                    j += 1;
                }
                match closed {
                    Some(end) => {
                        f.bracket = true;
                        if collating {
                            f.excluded.get_or_insert("collating symbol or equivalence class");
                        }
                        let inner = &c[start..end];
                        if inner.contains(&'\\') || c[i + 1..start].contains(&'\\') {
                            f.excluded.get_or_insert("backslash inside bracket expression");
                        }
                        // ranges: x-y with x > y are unspecified; '-' first or last is a literal
                        let all: Vec<char> = c[i + 1..end].to_vec();
                        let skip = usize::from(matches!(all.first(), Some('!') | Some('^')));
                        let body: Vec<char> = all[skip..].to_vec();
                        let mut k = 0;
                        while k < body.len() {
                            // skip over [:class:]
                            if body[k] == '[' && k + 1 < body.len() && body[k + 1] == ':' {
                                if let Some(off) = body[k + 2..].windows(2).position(|w| w == [':', ']']) {
                                    k += 2 + off + 2;
                                    if k + 1 < body.len() && body[k] == '-' {
                                        f.excluded.get_or_insert("range with a character class as an endpoint");
                                    }
                                    continue;
                                }
                            }
                            if k + 2 < body.len() && body[k + 1] == '-' {
                                let (lo, hi) = (body[k], body[k + 2]);
                                if lo == '[' || hi == '[' || lo == ']' || hi == ']' {
                                    f.excluded.get_or_insert("range with a bracket as an endpoint");
                                }
                                if lo > hi {
                                    f.excluded.get_or_insert("reversed range");
                                }
                                if lo == '-' || hi == '-' {
                                    f.excluded.get_or_insert("range with '-' as an endpoint");
                                }
                                let kind = |ch: char| if ch.is_ascii_lowercase() { 1 } else if ch.is_ascii_uppercase() { 2 } else { 0 };
                                let overlaps = |a: char, b: char| lo <= b && a <= hi;
                                let covers = |a: char, b: char| lo <= a && b <= hi;
                                let partial_letters = (overlaps('A', 'Z') && !covers('A', 'Z')) || (overlaps('a', 'z') && !covers('a', 'z')) || (covers('A', 'Z') != covers('a', 'z'));
                                if kind(lo) != kind(hi) || (kind(lo) == 0 && partial_letters) {
                                    f.casefold_open = true;
                                }
                                if !lo.is_ascii() || !hi.is_ascii() {
                                    f.excluded.get_or_insert("range with a non-ASCII endpoint (collation)");
                                }
                                k += 3;
                                // "[a-m-o]": POSIX leaves a range whose end point starts another range undefined
                                if k + 1 < body.len() && body[k] == '-' {
                                    f.excluded.get_or_insert("range directly followed by '-' (undefined in POSIX)");
                                }
                            } else {
                                k += 1;
                            }
                        }
                        i = end + 1;
                    }
                    None => {
                        // literal '[' (the statement says so).  glibc deviates when the unterminated
                        // text contains a '-' that it first reads as a range whose end is missing
                        // (it then reports no match instead of taking '[' literally): not compared
                        if c[i + 1..].contains(&'-') {
                            f.excluded.get_or_insert("unterminated '[' followed by '-' (glibc reads an unfinished range)");
                        }
                        // glibc lets a backslash quote inside a bracket expression: "\[:alpha:]" is
                        // then no class and a later ']' closes what POSIX reads as unterminated
                        if let Some(b) = c[i + 1..].iter().position(|ch| *ch == '\\') {
                            if c[i + 1 + b..].contains(&']') {
                                f.excluded.get_or_insert("backslash inside bracket expression");
                            }
                        }
                        i += 1;
                    }
                }
            }
            ch => {
                if ".^$+(){}|".contains(ch) {
                    f.regex_meta = true;
                }
                i += 1;
            }
        }
    }
    f
}

// ---------------------------------------------------------------------------
// tier A: exhaustive
// ---------------------------------------------------------------------------

#[derive(Serialize, Deserialize, Debug, Clone)]
pub struct PatCase {
    pub pattern: String,
    /// subjects; empty = the exhaustive subject table
    pub subjects: Vec<String>,
}

const PSYM: &[&str] = &["a", "b", "*", "?", "[", "]", "!", "-", "\\", ".", "/"];
const SSYM: &[&str] = &["a", "b", ".", "/", "-", "]", "\n"];

fn all_strings(sym: &[&str], maxlen: usize) -> Vec<String> {
    let mut out = vec![String::new()];
    let mut frontier = vec![String::new()];
    for _ in 0..maxlen {
        let mut next = vec![];
        for s in &frontier {
            for x in sym {
                next.push(format!("{s}{x}"));
            }
        }
        out.extend(next.iter().cloned());
        frontier = next;
    }
    out
}

thread_local! {
    static SUBJECT_TABLE: std::cell::RefCell<Vec<String>> = const { std::cell::RefCell::new(vec![]) };
}

fn subject_table() -> Vec<String> {
    SUBJECT_TABLE.with(|t| {
        if t.borrow().is_empty() {
            let mut v = all_strings(SSYM, 4);
            // a few with upper case for the -i forms
            v.extend(["A", "B", "aB", "Ab", "A.b", "[", "[a", "a[", "!", "!a", "\\", "a\\", "*", "?"].iter().map(|s| s.to_string()));
            *t.borrow_mut() = v;
        }
        t.borrow().clone()
    })
}

/// A listed finding of its own: under case folding the regex engine lets one bracket expression match
/// the two letters that some single character folds to ("ff" for U+FB00, "ss" for U+00DF, "st",
/// "fi", "fl", ...).  A wrong match is put down to that when the subject holds such a pair, fnmatch
/// matches once the pair is one letter, and find's matcher matches the subject with the pair
/// replaced by the character itself.
fn multichar_fold_explains(pattern: &str, subject: &str) -> bool {
    const FOLDS: &[(&str, &str)] = &[("ffi", "\u{fb03}"), ("ffl", "\u{fb04}"), ("ff", "\u{fb00}"), ("fi", "\u{fb01}"), ("fl", "\u{fb02}"), ("st", "\u{fb06}"), ("ss", "\u{df}")];
    let lower = subject.to_ascii_lowercase();
    for (pair, single) in FOLDS {
        for (at, _) in lower.match_indices(pair) {
            let collapsed = format!("{}{}{}", &subject[..at], &pair[..1], &subject[at + pair.len()..]);
            let folded = format!("{}{}{}", &subject[..at], single, &subject[at + pair.len()..]);
            if fnm(pattern, &collapsed, true) == Some(true) && crate::engine::proc::catch(|| glob_match_many(pattern, &[folded.as_str()], true)).ok().map_or(false, |g| g == [true]) {
                return true;
            }
        }
    }
    false
}

fn compare(pattern: &str, subjects: &[String]) -> Outcome {
    let f = features(pattern);
    if let Some(why) = f.excluded {
        return Pass::discard(why);
    }
    if pattern.contains('\0') {
        return Pass::discard("NUL in pattern");
    }
    let refs: Vec<&str> = subjects.iter().map(|s| s.as_str()).collect();
    let mut evals = 0u64;
    let mut any_match = false;
    let mut any_nomatch = false;
    for casefold in [false, true] {
        let got = match crate::engine::proc::catch(|| glob_match_many(pattern, &refs, casefold)) {
            Ok(g) => g,
            Err(p) => {
                return fail(format!("C12:panic:{}", p.split(": ").next().unwrap_or("?")), format!("pattern {pattern:?} (caseless {casefold}): {p}"));
            }
        };
        for (s, g) in subjects.iter().zip(&got) {
            // case folding of non-ASCII letters is not compared
            if casefold && (!s.is_ascii() || !pattern.is_ascii()) {
                continue;
            }
            // folding and the case-sensitive classes: which of the two is applied first is not specified
            if casefold && (pattern.contains("[:upper:]") || pattern.contains("[:lower:]") || f.casefold_open) {
                continue;
            }
            let Some(want) = fnm(pattern, s, casefold) else { continue };
            evals += 1;
            any_match |= want;
            any_nomatch |= !want;
            if *g != want {
                // a match that is missed because the backtracking engine behind the matcher gave up
                // (its retry limit) is a finding of its own, listed in known_findings.json
                if want {
                    if let Some(e) = glob_match_error(pattern, s, casefold) {
                        return fail("C12:glob-engine-gives-up:missed", format!("pattern {pattern:?} subject {s:?} caseless={casefold}: fnmatch says match; the engine reports {e:?} and the subject is reported as not matching"));
                    }
                }
                if casefold && !want && multichar_fold_explains(pattern, s) {
                    return fail("C12:caseless:multi-character-case-fold:matched-wrongly", format!("pattern {pattern:?} subject {s:?} caseless=true: fnmatch says no match, find's matcher says match (two letters taken as the folding of one character)"));
                }
                let kind = classify(pattern, s, want);
                return fail(
                    format!("C12:{}:{kind}", if casefold { "caseless" } else { "case-sensitive" }),
                    format!("pattern {pattern:?} subject {s:?} caseless={casefold}: fnmatch says {}, find's matcher says {}", if want { "match" } else { "no match" }, if *g { "match" } else { "no match" }),
                );
            }
        }
    }
    if evals == 0 {
        return Pass::discard("fnmatch reported an error for every subject");
    }
    Pass::new((f.wildcard || f.bracket) && (f.backslash || f.regex_meta) && any_match && any_nomatch)
        .evals(evals)
        .class_if(f.bracket, "bracket-expression")
        .class_if(f.wildcard, "wildcard")
        .class_if(f.backslash, "backslash")
        .class_if(f.regex_meta, "regex-metacharacter-literal")
        .class_if(pattern.contains("[:"), "character-class")
        .class_if(!pattern.is_ascii(), "multi-byte-pattern")
        .sample(json!({"pattern": pattern, "subjects_tried": subjects.len()}))
        .ok()
}

/// root-cause oriented label for a disagreement
fn classify(pattern: &str, subject: &str, want: bool) -> String {
    let f = features(pattern);
    let mut k: Vec<&str> = vec![];
    if subject.contains('\n') && (f.wildcard || f.bracket) {
        k.push("newline-in-subject");
    }
    if pattern.contains("[[") || pattern.contains("[![") {
        k.push("open-bracket-inside-bracket-expression");
    } else if f.bracket {
        k.push("bracket-expression");
    } else if pattern.contains('[') {
        k.push("stray-open-bracket");
    }
    if pattern.ends_with('\\') && !pattern.ends_with("\\\\") {
        k.push("trailing-backslash");
    } else if f.backslash {
        k.push("backslash");
    }
    if f.regex_meta {
        k.push("regex-metacharacter");
    }
    if k.is_empty() {
        k.push(if f.wildcard { "wildcard" } else { "literal" });
    }
    format!("{}:{}", k.join("+"), if want { "missed" } else { "matched-wrongly" })
}

fn check_pat(_ctx: &mut Ctx, c: &PatCase) -> Outcome {
    if c.subjects.is_empty() {
        compare(&c.pattern, &subject_table())
    } else {
        compare(&c.pattern, &c.subjects)
    }
}

// ---------------------------------------------------------------------------
// tier A: random
// ---------------------------------------------------------------------------

#[derive(Clone, Debug)]
enum Piece {
    Lit(char),
    Any,
    Star,
    Esc(char),
    /// members (as pattern text) and one matching character, negated
    Set(String, char, bool),
    StrayOpen,
    Raw(&'static str),
}

fn gen_piece(g: &mut Gen) -> Piece {
    const LITS: &[char] = &['a', 'b', 'c', 'A', 'Z', 'x', '0', '9', '.', '^', '$', '+', '(', ')', '{', '}', '|', '-', '_', ' ', '/', 'é', '日', ',', '~', '@', '#', '%', '&', '=', ':', ';', '<', '>', '\'', '"'];
    match g.weighted(&[10, 3, 3, 2, 5, 1, 1, 3]) {
        7 => {
            // a character class with one of its ASCII members (every class, every member)
            const CLASSES: &[(&str, unsafe extern "C" fn(libc::c_int) -> libc::c_int)] = &[
                ("alpha", libc::isalpha),
                ("digit", libc::isdigit),
                ("alnum", libc::isalnum),
                ("upper", libc::isupper),
                ("lower", libc::islower),
                ("space", libc::isspace),
                ("blank", libc::isblank),
                ("punct", libc::ispunct),
                ("print", libc::isprint),
                ("graph", libc::isgraph),
                ("cntrl", libc::iscntrl),
                ("xdigit", libc::isxdigit),
            ];
            let (name, is) = g.pick(CLASSES);
            let neg = g.chance(1, 3);
            let all: Vec<char> = (1u8..128).filter(|b| (unsafe { is(*b as libc::c_int) } != 0) != neg).map(|b| b as char).collect();
            let hit = all[g.below(all.len() as u64) as usize];
            let extra = g.pick(&["", "", "_", "a", "0-9"]);
            // negation is spelled in the member text; `Set`'s own flag stays off so that `hit` is used
            Piece::Set(format!("{}[:{name}:]{extra}", if neg { "!" } else { "" }), hit, false)
        }
        0 => Piece::Lit(g.pick(LITS)),
        1 => Piece::Any,
        2 => Piece::Star,
        3 => Piece::Esc(g.pick(&['*', '?', '[', ']', '\\', 'a', '.', '!', '-', 'n', '$', '^'])),
        4 => {
            let neg = g.chance(1, 3);
            let (members, hit): (String, char) = match g.below(9) {
                0 => ("abc".into(), 'b'),
                1 => ("a-f".into(), 'd'),
                2 => ("]a".into(), ']'),
                3 => ("a-cx-z0-9".into(), 'y'),
                4 => ("[:alpha:]".into(), 'q'),
                5 => ("[:digit:]_".into(), '7'),
                6 => ("[:upper:][:space:]".into(), 'Q'),
                7 => (".$*+?(){}|".into(), '+'),
                _ => ("a-".into(), '-'),
            };
            Piece::Set(members, hit, neg)
        }
        5 => Piece::StrayOpen,
        _ => Piece::Raw(g.pick(&["]", "!", "[!", "[]", "[a", "-]", "[[]", "[[]x", "[a[]", "[[:alpha:]", "[[:foo:]]", "[!]]", "[]-a]", "[[.a.]", "[[=a=]", "[[.a.]*", "[[=a=]\\{2\\}", "[[.x.]\\(.\\)\\1", "[[=.=]$"])),
    }
}

fn gen_random(g: &mut Gen) -> PatCase {
    let n = g.usize_in(1, 16);
    let pieces: Vec<Piece> = (0..n).map(|_| gen_piece(g)).collect();
    let mut pattern = String::new();
    let mut member = String::new();
    for p in &pieces {
        match p {
            Piece::Lit(c) => {
                // a literal that is special in a glob is written escaped half of the time elsewhere
                pattern.push(*c);
                member.push(*c);
            }
            Piece::Any => {
                pattern.push('?');
                member.push(g.pick(&['a', '/', '.', '\n', 'é', 'Z']));
            }
            Piece::Star => {
                pattern.push('*');
                member.push_str(g.pick(&["", "a", "ab/c", ".x", "\n", "日本"]));
            }
            Piece::Esc(c) => {
                pattern.push('\\');
                pattern.push(*c);
                member.push(*c);
            }
            Piece::Set(m, hit, neg) => {
                pattern.push('[');
                if *neg {
                    pattern.push('!');
                }
                pattern.push_str(m);
                pattern.push(']');
                member.push(if *neg { '%' } else { *hit });
            }
            Piece::StrayOpen => {
                pattern.push('[');
                member.push('[');
            }
            Piece::Raw(r) => {
                pattern.push_str(r);
                // an unmatched '[' is a literal and what follows it is a pattern of its own
                member.push_str(match *r {
                    "[[.a.]" => "[a",
                    "[[=a=]" => "[=",
                    "[[.a.]*" => "[.zz",
                    "[[=a=]\\{2\\}" => "[a{2}",
                    "[[.x.]\\(.\\)\\1" => "[x(.)1",
                    "[[=.=]$" => "[.$",
                    r => r,
                });
            }
        }
    }
    if g.chance(1, 25) {
        pattern.push('\\');
    }
    // subjects: the constructed member and its neighbours
    let mut subjects = vec![member.clone()];
    let chars: Vec<char> = member.chars().collect();
    subjects.push(format!("x{member}"));
    subjects.push(format!("{member}x"));
    subjects.push(format!("{member}\n"));
    subjects.push(format!("\n{member}"));
    subjects.push(format!(".{member}"));
    subjects.push(format!("d/{member}"));
    subjects.push(member.to_uppercase());
    subjects.push(member.to_lowercase());
    if !chars.is_empty() {
        let k = g.below(chars.len() as u64) as usize;
        let mut v = chars.clone();
        v.remove(k);
        subjects.push(v.iter().collect());
        let mut v = chars.clone();
        v.insert(k, g.pick(&['/', '\n', 'a', '.', ']', '[', '\\', '*']));
        subjects.push(v.iter().collect());
        let mut v = chars.clone();
        v[k] = if g.bool() { g.pick(&['a', 'B', '/', '\n', '.', '-', ']', '9']) } else { (1 + g.below(127) as u8) as char };
        subjects.push(v.iter().collect());
        // one character replaced by two letters that some single character folds to (a matcher that
        // folds case through multi-character foldings takes them for one)
        let mut v: Vec<String> = chars.iter().map(|c| c.to_string()).collect();
        v[k] = g.pick(&["ff", "FF", "fF", "ss", "SS", "st", "fi", "fl", "ffi"]).to_string();
        subjects.push(v.concat());
    }
    subjects.push(pattern.clone());
    subjects.push(String::new());
    subjects.retain(|s| !s.contains('\0'));
    subjects.dedup();
    PatCase { pattern, subjects }
}

/// several '*' and long subjects: a translation into a backtracking matcher answers these slowly or
/// (when the matcher gives up) wrongly; the text between two stars has to be found wherever it is
fn gen_many_stars(g: &mut Gen) -> PatCase {
    let stars = g.usize_in(2, 8);
    let mut pattern = String::new();
    let mut member = String::new();
    let filler = |g: &mut Gen| -> String {
        let n = match g.below(6) {
            0 => 0,
            1 => g.usize_in(1, 4),
            2 | 3 => g.usize_in(5, 120),
            4 => g.usize_in(120, 500),
            _ => g.usize_in(500, 3000),
        };
        // mostly one letter, so that the text between the stars has many false starts
        let main = g.pick(&['a', 'b']);
        (0..n).map(|_| if g.chance(1, 12) { g.pick(&['a', 'b', 'c', '/', '.']) } else { main }).collect()
    };
    for i in 0..=stars {
        // the text before the first, between two, after the last star
        let n = if (i == 0 || i == stars) && g.bool() { 0 } else { g.usize_in(1, 4) };
        for _ in 0..n {
            match g.weighted(&[6, 1, 1, 1]) {
                0 => {
                    let c = g.pick(&['a', 'a', 'b', 'b', 'c', '.', '+']);
                    pattern.push(c);
                    member.push(c);
                }
                1 => {
                    pattern.push('?');
                    member.push(g.pick(&['a', 'b', '/']));
                }
                2 => {
                    pattern.push_str("[ab]");
                    member.push(g.pick(&['a', 'b']));
                }
                _ => {
                    pattern.push_str("\\?");
                    member.push('?');
                }
            }
        }
        if i < stars {
            pattern.push('*');
            member.push_str(&filler(g));
        }
    }
    let mut subjects = vec![member.clone()];
    let chars: Vec<char> = member.chars().collect();
    if !chars.is_empty() {
        subjects.push(chars[..chars.len() - 1].iter().collect());
        subjects.push(chars[1..].iter().collect());
        let mut v = chars.clone();
        let k = g.below(v.len() as u64) as usize;
        v[k] = g.pick(&['a', 'b', 'c', 'x']);
        subjects.push(v.iter().collect());
        let mut v = chars.clone();
        let k = v.len() - 1 - g.below(v.len().min(4) as u64) as usize;
        v[k] = g.pick(&['a', 'b', 'x']);
        subjects.push(v.iter().collect());
    }
    subjects.push(format!("x{member}"));
    subjects.push(format!("{member}x"));
    subjects.push(filler(g));
    subjects.dedup();
    PatCase { pattern, subjects }
}

// ---------------------------------------------------------------------------
// tier B: end to end
// ---------------------------------------------------------------------------

#[derive(Serialize, Deserialize, Debug, Clone)]
pub struct E2eCase {
    pub pattern: String,
    /// file names (slash-free subjects)
    pub names: Vec<String>,
    /// link targets (arbitrary subjects)
    pub targets: Vec<String>,
    /// "-name" | "-iname" | "-path" | "-ipath" | "-wholename" | "-iwholename" | "-lname" | "-ilname"
    pub test: String,
}

fn gen_e2e(g: &mut Gen) -> E2eCase {
    let pc = gen_random(g);
    let test = g.pick(&["-name", "-name", "-iname", "-path", "-ipath", "-wholename", "-iwholename", "-lname", "-ilname"]).to_string();
    let mut names: Vec<String> = vec![];
    let mut targets: Vec<String> = vec![];
    for s in &pc.subjects {
        let base: String = s.replace('/', "");
        if !base.is_empty() && base != "." && base != ".." && base.len() < 200 && !names.contains(&base) {
            names.push(base);
        }
        if !s.is_empty() && s.len() < 200 {
            targets.push(s.clone());
        }
    }
    // for -path the pattern must be able to match "c/d/NAME": prefix it
    let pattern = if test.contains("path") || test.contains("wholename") { g.pick(&["c/d/", "*/", "c/?/", "*"]).to_string() + &pc.pattern } else { pc.pattern.clone() };
    E2eCase { pattern, names, targets, test }
}

fn check_e2e(ctx: &mut Ctx, c: &E2eCase) -> Outcome {
    let f = features(&c.pattern);
    if let Some(why) = f.excluded {
        return Pass::discard(why);
    }
    ctx.fresh_case_dir();
    std::fs::create_dir("c/d").unwrap();
    let mut entries: Vec<(String, Option<String>)> = vec![]; // (name, link target)
    for n in &c.names {
        if std::fs::File::create(format!("c/d/{n}")).is_ok() {
            entries.push((n.clone(), None));
        }
    }
    for (i, t) in c.targets.iter().enumerate() {
        let n = format!("L{i}");
        if std::os::unix::fs::symlink(t, format!("c/d/{n}")).is_ok() {
            entries.push((n, Some(t.clone())));
        }
    }
    let casefold = c.test.starts_with("-i");
    if casefold && !c.pattern.is_ascii() {
        return Pass::discard("case folding of non-ASCII letters");
    }
    if casefold && (c.pattern.contains("[:upper:]") || c.pattern.contains("[:lower:]") || f.casefold_open) {
        return Pass::discard("case folding combined with [:upper:]/[:lower:]");
    }
    let mut want: Vec<String> = vec![];
    let mut subject_of: std::collections::HashMap<String, String> = Default::default();
    let mut undecided = false;
    let mut all: Vec<(String, Option<String>)> = vec![("".to_string(), None)];
    all.extend(entries.iter().cloned());
    for (n, target) in &all {
        let path = if n.is_empty() { "c/d".to_string() } else { format!("c/d/{n}") };
        let subject: Option<String> = match c.test.as_str() {
            "-name" | "-iname" => Some(if n.is_empty() { "d".to_string() } else { n.clone() }),
            "-lname" | "-ilname" => target.clone(),
            _ => Some(path.clone()),
        };
        let Some(s) = subject else { continue };
        subject_of.insert(path.clone(), s.clone());
        if casefold && !s.is_ascii() {
            undecided = true;
            continue;
        }
        match fnm(&c.pattern, &s, casefold) {
            Some(true) => want.push(path),
            Some(false) => {}
            None => undecided = true,
        }
    }
    if undecided {
        return Pass::discard("fnmatch error or non-ASCII case folding for some entry");
    }
    want.sort();
    let o = ctx.find(&["c/d", &c.test, &c.pattern, "-print0"]);
    if let Some(p) = o.panic {
        return fail(format!("C12:panic:{}", p.split(": ").next().unwrap_or("?")), format!("find c/d {} {:?}: {p}", c.test, c.pattern));
    }
    let mut got: Vec<String> = o.stdout.split(|b| *b == 0).filter(|s| !s.is_empty()).map(|s| lossy(s)).collect();
    got.sort();
    if got != want || o.status != 0 {
        let missing: Vec<&String> = want.iter().filter(|w| !got.contains(w)).collect();
        let extra: Vec<&String> = got.iter().filter(|w| !want.contains(w)).collect();
        if casefold && missing.is_empty() && o.status == 0 && extra.iter().all(|e| subject_of.get(*e).map_or(false, |s| multichar_fold_explains(&c.pattern, s))) {
            return fail("C12:caseless:multi-character-case-fold:matched-wrongly", format!("find c/d {} {:?} -print0\nselected but fnmatch says no: {extra:?} (two letters taken as the folding of one character)", c.test, c.pattern));
        }
        let probe = missing.first().or(extra.first()).map(|s| s.to_string()).unwrap_or_default();
        let kind = classify(&c.pattern, &probe, !missing.is_empty());
        return fail(format!("C12:e2e:{}:{kind}", c.test), format!("find c/d {} {:?} -print0\nexit {} stderr {:?}\nselected but fnmatch says no: {extra:?}\nnot selected but fnmatch says yes: {missing:?}", c.test, c.pattern, o.status, lossy(&o.stderr)));
    }
    Pass::new((f.wildcard || f.bracket) && (f.backslash || f.regex_meta) && !want.is_empty() && want.len() < all.len())
        .class(match c.test.as_str() {
            "-name" | "-iname" => "e2e-name",
            "-lname" | "-ilname" => "e2e-lname",
            _ => "e2e-path",
        })
        .class_if(casefold, "e2e-caseless")
        .evals(all.len() as u64)
        .sample(json!({"cmdline": format!("find c/d {} {:?}", c.test, c.pattern), "entries": all.len(), "selected": want.len()}))
        .ok()
}


// ---------------------------------------------------------------------------
// caseless matching in a fresh process
// ---------------------------------------------------------------------------

/// The find *binary*, one process per case, with a single caseless test as its whole expression:
/// whatever the matchers set up once per process must be in force for the very first pattern,
/// whichever shape it has (no star, one, several; with or without a bracket expression).  The
/// pattern holds a letter pair (ss ff fi fl st) in some case; the files are named like a matching
/// string, the same with the pair's case changed (both fnmatch-es character by character) and the
/// same with the pair replaced by the single character that full case folding maps to it
/// (ß ﬀ ﬁ ﬂ ﬆ - one character can never stand for two pattern characters).
#[derive(Serialize, Deserialize, Debug, Clone)]
pub struct FreshCase {
    /// text pieces between the stars; the pair is appended to piece `at`
    pub pieces: Vec<String>,
    pub at: usize,
    pub pair: String,
    pub upper_in_pattern: bool,
    pub bracket: bool,
    /// "-iname" | "-ipath" | "-ilname"
    pub test: String,
}

fn gen_fresh(g: &mut Gen) -> FreshCase {
    let n = g.usize_in(1, 4);
    let pieces: Vec<String> = (0..n).map(|_| g.pick(&["", "a", "x", "b-", "q", "é"]).to_string()).collect();
    FreshCase { at: g.usize_in(0, n - 1), pieces, pair: g.pick(&["ss", "ff", "fi", "fl", "st"]).to_string(), upper_in_pattern: g.bool(), bracket: g.chance(1, 4), test: g.pick(&["-iname", "-iname", "-ipath", "-ilname"]).to_string() }
}

fn check_fresh(ctx: &mut Ctx, c: &FreshCase) -> Outcome {
    use crate::engine::proc::{find_bin, BinOpts};
    ctx.fresh_case_dir();
    std::fs::create_dir("c/d").unwrap();
    let single = match c.pair.as_str() {
        "ss" => "ß",
        "ff" => "ﬀ",
        "fi" => "ﬁ",
        "fl" => "ﬂ",
        _ => "ﬆ",
    };
    // pattern: pieces joined by '*', the pair inside piece `at`; subject: the stars filled with "z"
    let build = |pair: &str, star: &str| -> String {
        let mut out = String::new();
        for (i, p) in c.pieces.iter().enumerate() {
            if i > 0 {
                out.push_str(star);
            }
            out.push_str(p);
            if i == c.at {
                out.push_str(pair);
            }
        }
        out
    };
    let pat_pair = if c.upper_in_pattern { c.pair.to_uppercase() } else { c.pair.clone() };
    let mut pattern = build(&pat_pair, "*");
    if c.bracket {
        pattern.push_str("[k]");
    }
    let tail = if c.bracket { "k" } else { "" };
    let same = format!("{}{tail}", build(&c.pair, "z"));
    let other_case = format!("{}{tail}", build(&if c.upper_in_pattern { c.pair.clone() } else { c.pair.to_uppercase() }, "z"));
    let mixed = format!("{}{tail}", build(&format!("{}{}", c.pair[..1].to_uppercase(), &c.pair[1..]), "z"));
    let folded = format!("{}{tail}", build(single, "z"));
    let mut want: Vec<String> = vec![];
    let names = [&same, &other_case, &mixed, &folded];
    for (i, n) in names.iter().enumerate() {
        if names[..i].contains(n) {
            continue;
        }
        let path = format!("c/d/f{i}");
        let (arg, matches) = match c.test.as_str() {
            "-ilname" => {
                std::os::unix::fs::symlink(n.as_str(), &path).unwrap();
                (pattern.clone(), i != 3)
            }
            _ => {
                std::fs::create_dir(&path).unwrap();
                std::fs::write(format!("{path}/{n}"), b"").unwrap();
                (pattern.clone(), i != 3)
            }
        };
        let _ = arg;
        if matches {
            want.push(if c.test == "-ilname" { path.clone() } else { format!("{path}/{n}") });
        }
    }
    let pat_arg = if c.test == "-ipath" { format!("c/d/f?/{pattern}") } else { pattern.clone() };
    let args: Vec<String> = vec!["c/d".into(), "-mindepth".into(), "1".into(), c.test.clone(), pat_arg.clone(), "-print0".into()];
    let o = ctx.run_bin(&find_bin(), &args, &BinOpts { clear_env: true, ..Default::default() });
    let mut got: Vec<String> = o.stdout.split(|b| *b == 0).filter(|s| !s.is_empty()).map(|s| lossy(s)).collect();
    got.sort();
    want.sort();
    if !o.ordinary() || o.code != Some(0) || got != want {
        let extra_folded = got.iter().any(|g| g.contains(single));
        return fail(
            format!("C12:caseless:fresh-process:{}:{}", if extra_folded { "multi-character-case-fold-matched-wrongly" } else { "selection-differs" }, if c.pieces.len() >= 3 { "two-or-more-stars" } else { "fewer-stars" }),
            format!("find {args:?} (a process of its own)\nexit {:?} stderr {:?}\nexpected {want:?}\nobserved {got:?}\n(character-by-character folding: {single:?} is one character and cannot match the two pattern characters {pat_pair:?})", o.code, lossy(&o.stderr)),
        );
    }
    Pass::new(true)
        .class("caseless-fresh-process")
        .class_if(c.pieces.len() >= 3, "fresh-process-two-or-more-stars")
        .class_if(c.bracket, "fresh-process-with-bracket")
        .sample(json!({"cmdline": format!("find c/d -mindepth 1 {} {:?}", c.test, pat_arg), "selected": want.len()}))
        .ok()
}

// ---------------------------------------------------------------------------
// tier C: which string each test is matched against
// ---------------------------------------------------------------------------

/// Starting-point spellings of the fixed tree built by `build_subject_tree` (cwd = sandbox root).
const ROOTS: &[&str] = &[
    "c/top/sub", "c/top/sub/", "c/top/sub//", "c/top/sub/.", "c/top/sub/./", "c/top/sub/..", "c/top/sub/../", "c/top//sub", "./c/top/sub", "c//top/sub/.", "c/top/sub/../sub", "c/rl", "c/rl/", "c/rl/.", "c/rl/..", "c/rf", "c/rd",
    "c/top/sub/file", "c/top/sub/.hid", "c/top/sub/ld", "c/top/sub/ld/", "c/top/sub/ld/.", "c/top/sub/lf", "c/top/sub/dl", ".", "./", "./.", "c/.", "c/",
];

fn build_subject_tree() {
    use std::os::unix::fs::symlink;
    std::fs::create_dir_all("c/top/sub").unwrap();
    std::fs::create_dir_all("c/top/other").unwrap();
    std::fs::write("c/top/sub/file", b"").unwrap();
    std::fs::write("c/top/sub/.hid", b"").unwrap();
    std::fs::write("c/top/other/in", b"").unwrap();
    symlink("file", "c/top/sub/lf").unwrap();
    symlink("../other", "c/top/sub/ld").unwrap();
    symlink("no/where", "c/top/sub/dl").unwrap();
    symlink("top/sub", "c/rl").unwrap();
    symlink("top/sub/file", "c/rf").unwrap();
    symlink("gone", "c/rd").unwrap();
}

#[derive(Serialize, Deserialize, Debug, Clone)]
pub struct SubjCase {
    pub root: String,
    pub follow: FollowMode,
    pub test: String,
    /// 0, 1, 2 = -maxdepth N; 3 = none
    pub maxdepth: u8,
    /// index (scaled) of the reference entry the pattern is derived from
    pub target: u32,
    /// the string of that entry the pattern is derived from: 0 the subject the statement names, 1 its
    /// last component that is not '.', '..' or empty, 2 the whole path, 3 its last component, 4 the
    /// link text, 5 the path without trailing slashes, 6 the name of the file it resolves to
    pub source: u8,
    /// 0 literal, 1 '*'+tail, 2 head+'*', 3 upper-cased literal, 4 first character in brackets,
    /// 5 '?' for the first character, 6 '*', 7 literal + '/'
    pub shape: u8,
}

fn lit(s: &str) -> String {
    let mut o = String::new();
    for ch in s.chars() {
        if "*?[\\".contains(ch) {
            o.push('\\');
        }
        o.push(ch);
    }
    o
}

const SUBJ_TESTS: &[&str] = &["-name", "-iname", "-path", "-ipath", "-wholename", "-iwholename", "-lname", "-ilname"];

fn gen_subj(g: &mut Gen) -> SubjCase {
    SubjCase { root: g.pick(ROOTS).to_string(), follow: g.pick(&[FollowMode::P, FollowMode::H, FollowMode::L]), test: g.pick(SUBJ_TESTS).to_string(), maxdepth: g.below(4) as u8, target: g.below(1 << 16) as u32, source: g.below(7) as u8, shape: g.below(8) as u8 }
}

/// the string the statement names for this entry (None: the test is false whatever the pattern)
fn subject_of(e: &RefEntry, test: &str) -> Option<String> {
    match test {
        "-name" | "-iname" => Some(e.name().to_string()),
        "-lname" | "-ilname" => {
            if e.type_of() == 'l' {
                std::fs::read_link(&e.path).ok().map(|t| t.to_string_lossy().into_owned())
            } else {
                None
            }
        }
        _ => Some(e.path.clone()),
    }
}

fn check_subj(ctx: &mut Ctx, c: &SubjCase) -> Outcome {
    ctx.fresh_case_dir();
    build_subject_tree();
    let max_depth = if c.maxdepth >= 3 { usize::MAX } else { c.maxdepth as usize };
    // '.' spellings would walk the whole sandbox: keep those shallow
    let max_depth = if c.root.starts_with('.') && !c.root.starts_with("./c") { max_depth.min(1) } else { max_depth };
    let (entries, events) = ref_paths(&c.root, &WalkOpts { follow: c.follow, max_depth, ..Default::default() });
    if entries.is_empty() {
        return Pass::discard("starting point cannot be examined");
    }
    let te = &entries[(c.target as usize * entries.len()) >> 16];
    let src: Option<String> = match c.source {
        0 => subject_of(te, &c.test),
        1 => te.path.split('/').filter(|x| !x.is_empty() && *x != "." && *x != "..").last().map(|x| x.to_string()),
        2 => Some(te.path.clone()),
        3 => Some(te.name().to_string()),
        4 => std::fs::read_link(te.path.trim_end_matches('/')).ok().map(|t| t.to_string_lossy().into_owned()),
        5 => Some(te.path.trim_end_matches('/').to_string()),
        _ => std::fs::canonicalize(&te.path).ok().and_then(|p| p.file_name().map(|f| f.to_string_lossy().into_owned())),
    };
    let Some(src) = src else { return Pass::discard("the chosen entry has no such string") };
    if src.is_empty() {
        return Pass::discard("empty source string");
    }
    let chars: Vec<char> = src.chars().collect();
    let pattern = match c.shape {
        0 => lit(&src),
        1 => format!("*{}", lit(&chars[chars.len().saturating_sub(2)..].iter().collect::<String>())),
        2 => format!("{}*", lit(&chars[..chars.len().min(2)].iter().collect::<String>())),
        3 => lit(&src.to_uppercase()),
        4 => format!("[{}]{}", if chars[0] == ']' || chars[0] == '!' || chars[0] == '^' || chars[0] == '\\' { return Pass::discard("bracket of a special character") } else { chars[0] }, lit(&chars[1..].iter().collect::<String>())),
        5 => format!("?{}", lit(&chars[1..].iter().collect::<String>())),
        6 => "*".to_string(),
        _ => format!("{}/", lit(&src)),
    };
    let casefold = c.test.starts_with("-i");
    let mut want: Vec<String> = vec![];
    let mut subjects: Vec<(String, Option<String>)> = vec![];
    for e in &entries {
        let s = subject_of(e, &c.test);
        if let Some(s) = &s {
            match fnm(&pattern, s, casefold) {
                Some(true) => want.push(e.path.clone()),
                Some(false) => {}
                None => return Pass::discard("fnmatch error"),
            }
        }
        subjects.push((e.path.clone(), s));
    }
    want.sort();
    let mut args: Vec<String> = vec![c.follow.flag().to_string(), c.root.clone()];
    if max_depth != usize::MAX {
        args.push("-maxdepth".into());
        args.push(max_depth.to_string());
    }
    args.extend([c.test.clone(), pattern.clone(), "-print0".to_string()]);
    let a: Vec<&str> = args.iter().map(|x| x.as_str()).collect();
    let o = ctx.find(&a);
    if let Some(p) = o.panic {
        return fail(format!("C12:panic:{}", p.split(": ").next().unwrap_or("?")), format!("find {args:?}: {p}"));
    }
    let mut got: Vec<String> = o.stdout.split(|b| *b == 0).filter(|s| !s.is_empty()).map(lossy).collect();
    got.sort();
    let spelling = if c.root == "." || c.root.ends_with("/.") { "ends-in-dot" } else if c.root.ends_with("/..") { "ends-in-dotdot" } else if c.root.ends_with('/') { "trailing-slash" } else { "plain" };
    if got != want {
        let missing: Vec<&String> = want.iter().filter(|w| !got.contains(w)).collect();
        let extra: Vec<&String> = got.iter().filter(|w| !want.contains(w)).collect();
        let probe = missing.first().or(extra.first()).map(|s| s.to_string()).unwrap_or_default();
        let depth0 = entries.iter().any(|e| e.path == probe && e.depth == 0);
        return fail(
            format!("C12:subject:{}:{}:{}:{}:{}", c.test, c.follow.flag(), if depth0 { format!("starting-point-{spelling}") } else { "below".to_string() }, if entries.iter().any(|e| e.path == probe && e.is_link()) { "link" } else { "not-a-link" }, if missing.is_empty() { "selected-wrongly" } else { "missed" }),
            format!("find {}\nexit {} stderr {:?}\nselected but the named string does not match: {extra:?}\nnot selected but the named string matches: {missing:?}\nentries and the string {} is matched against: {subjects:?}", args.iter().map(|x| format!("{x:?}")).collect::<Vec<_>>().join(" "), o.status, lossy(&o.stderr), c.test),
        );
    }
    let want_status = if events.iter().any(|e| matches!(e, Ev::Error(_) | Ev::Loop(_))) { 1 } else { 0 };
    if o.status != want_status {
        return fail(format!("C12:subject:exit-status-{}", o.status), format!("find {args:?}: exit {} stderr {:?}", o.status, lossy(&o.stderr)));
    }
    Pass::new(!want.is_empty() && want.len() < entries.len() || spelling != "plain")
        .class("subject")
        .class(match c.test.as_str() {
            "-name" | "-iname" => "subject-name",
            "-lname" | "-ilname" => "subject-lname",
            _ => "subject-path",
        })
        .class(match spelling {
            "plain" => "root-plain",
            "trailing-slash" => "root-trailing-slash",
            "ends-in-dot" => "root-ends-in-dot",
            _ => "root-ends-in-dotdot",
        })
        .class_if(c.follow != FollowMode::P, "subject-follow-mode")
        .class_if(te.depth == 0, "pattern-from-starting-point")
        .evals(entries.len() as u64)
        .sample(json!({"cmdline": format!("find {}", args.join(" ")), "entries": entries.len(), "selected": want.len()}))
        .ok()
}

fn run(w: &mut Worker) {
    set_locale();
    w.regress::<PatCase>("pairs", check_pat);
    w.regress::<E2eCase>("e2e", check_e2e);
    w.regress_fuzz(fuzz_one);
    let maxp = w.tier.pick(4usize, 5);
    let pats = all_strings(PSYM, maxp);
    w.exhaustive("pairs-small", &format!("every pattern of <= {maxp} symbols over {{a b * ? [ ] ! - \\ . /}} x every subject of <= 4 symbols over {{a b . / - ] NL}} (+14 extra), both case modes"), pats.into_iter().map(|pattern| PatCase { pattern, subjects: vec![] }), check_pat);
    w.random("pairs", w.tier.pick(60_000, 1_000_000), (40, 160), 800, gen_random, check_pat);
    w.random("pairs-many-stars", w.tier.pick(12_000, 200_000), (40, 160), 60, gen_many_stars, check_pat);
    w.random("e2e", w.tier.pick(6_000, 80_000), (40, 160), 400, gen_e2e, check_e2e);
    w.regress::<FreshCase>("caseless-fresh-process", check_fresh);
    w.random("caseless-fresh-process", w.tier.pick(600, 10_000), (8, 20), 60, gen_fresh, check_fresh);
    w.regress::<SubjCase>("subject", check_subj);
    let mut roots: Vec<SubjCase> = vec![];
    for root in ROOTS {
        for follow in [FollowMode::P, FollowMode::H, FollowMode::L] {
            for test in SUBJ_TESTS {
                for source in [0u8, 1, 3] {
                    roots.push(SubjCase { root: root.to_string(), follow, test: test.to_string(), maxdepth: 3, target: 0, source, shape: 0 });
                }
            }
        }
    }
    w.exhaustive("subject-roots", "every starting-point spelling x -P/-H/-L x the six tests x a literal pattern taken from the starting point's named string / last ordinary component / last component", roots.into_iter(), check_subj);
    w.random("subject", w.tier.pick(24_000, 400_000), (8, 16), 200, gen_subj, check_subj);
}

fn replay(w: &mut Worker, sub: &str, v: Value) -> Outcome {
    set_locale();
    if sub == "e2e" {
        check_e2e(&mut w.ctx, &decode(v))
    } else if sub == "caseless-fresh-process" {
        check_fresh(&mut w.ctx, &decode(v))
    } else if sub.starts_with("subject") {
        check_subj(&mut w.ctx, &decode(v))
    } else {
        check_pat(&mut w.ctx, &decode(v))
    }
}

/// libFuzzer entry: pattern = bytes up to the first NUL, subject = the rest (both read as UTF-8,
/// lossily); the subject's one-edit neighbours are tried too.  Oracle: no panic, and agreement
/// with fnmatch on the compared domain.
pub fn fuzz_one(data: &[u8]) -> Option<crate::engine::Violation> {
    static LOCALE: std::sync::Once = std::sync::Once::new();
    LOCALE.call_once(set_locale);
    let data = &data[..data.len().min(300)];
    let cut = data.iter().position(|b| *b == 0).unwrap_or(data.len());
    let pattern = String::from_utf8_lossy(&data[..cut]).into_owned();
    let subject = String::from_utf8_lossy(&data[(cut + 1).min(data.len())..]).replace('\0', "");
    let mut subjects = vec![subject.clone(), format!("{subject}x"), format!("x{subject}"), format!("{subject}\n"), pattern.clone()];
    subjects.dedup();
    crate::engine::violation_of(compare(&pattern, &subjects))
}
