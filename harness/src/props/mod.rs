//! Property registry: one module per listed property.

use crate::engine::{Outcome, Worker};
use serde_json::Value;

pub struct PropDef {
    pub id: &'static str,
    /// how cases are generated and what makes one non-trivial / distinct
    pub rule: &'static str,
    pub assumptions: &'static [&'static str],
    pub run: fn(&mut Worker),
    pub replay: fn(&mut Worker, &str, Value) -> Outcome,
    /// libFuzzer entry (thorough tier): bytes -> case -> oracle; None = no fuzz target
    pub fuzz: Option<fn(&[u8]) -> Option<crate::engine::Violation>>,
}

pub mod c01;
pub mod c02;
pub mod c03;
pub mod c04;
pub mod c05;
pub mod c06;
pub mod c07;
pub mod c08;
pub mod c09;
pub mod c10;
pub mod c11;
pub mod c12;
pub mod c13;
pub mod c14;
pub mod c15;
pub mod c16;
pub mod c17;
pub mod c18;
pub mod c19;
pub mod c20;

pub fn all() -> Vec<&'static PropDef> {
    vec![&c01::DEF, &c02::DEF, &c03::DEF, &c04::DEF, &c05::DEF, &c06::DEF, &c07::DEF, &c08::DEF, &c09::DEF, &c10::DEF, &c11::DEF, &c12::DEF, &c13::DEF, &c14::DEF, &c15::DEF, &c16::DEF, &c17::DEF, &c18::DEF, &c19::DEF, &c20::DEF]
}

pub fn lookup(id: &str) -> Option<&'static PropDef> {
    all().into_iter().find(|d| d.id == id)
}

/// decode a replay case or stop (a replay file that does not decode is a harness problem)
pub fn decode<C: serde::de::DeserializeOwned>(v: Value) -> C {
    match serde_json::from_value(v) {
        Ok(c) => c,
        Err(e) => crate::engine::inconclusive(&format!("replay case does not decode: {e}")),
    }
}
