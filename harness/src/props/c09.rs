//! C09 — -exec ... ; : one run per file, {} substituted, argv intact, true iff 0.

use super::{decode, PropDef};
use crate::engine::fsx::{ref_paths, FollowMode, Kind, Node, TreeSpec, WalkOpts, HOSTILE_NAMES};
use crate::engine::proc::{find_bin, lossy, read_rec_log, rec_bin, BinOpts, Ctx};
use crate::engine::{fail, Gen, Outcome, Pass, Worker};
use serde::{Deserialize, Serialize};
use serde_json::{json, Value};
use std::ffi::OsString;

pub static DEF: PropDef = PropDef {
    id: "C09",
    rule: "random: trees of 1-10 entries with hostile names (blanks, newlines, quotes, backslashes, '{}', leading '-', '$()', glob characters, multi-byte) x one or two -exec/-execdir ... ; actions whose argument templates hold 0-4 arguments with 0-3 '{}' each (alone, embedded in text, adjacent, near-misses '{' '}' '{ }', empty arguments) x scripted exit statuses per invocation (0, 1..255, death by signal) x command {rec recorder, missing name, true/false, a file without execute permission, a directory, a path through a regular file} x position of the action (plain; '( -exec ; -printf T ) -o -printf F'; negated; behind a -type test; two actions in sequence so that the second runs only where the first succeeded). Run in process and (1 in 8) through the built binary. A second sub-run uses file names that are not valid UTF-8 (raw bytes 0x80-0xFF in a flat directory) with bare and embedded {} templates. Oracle: one record per entry on which the action is reached, in visit order and interleaved per file as the evaluation prescribes; argv == template with every {} replaced by the path (./basename for -execdir), byte for byte, one argv element per template argument; cwd == the harness cwd (-exec) or the entry's parent directory (-execdir); starting points are spelled c/r, ./c/r, c/r/, c//r, c/r/., c/r/./, c/up/../r, c/up/.. - for -execdir on a starting point whose spelling ends in '/', '.' or '..' both the textual view (directory = the text before the last component, name = that component) and the physical view (real parent directory, real name) are accepted, each as a (cwd, ./name) pair that names the entry; truth == (child status 0), observed through labelled -printf output; through the binary the command also writes a marker to the stdout it shares with find, and the markers and find's own -printf output must appear in evaluation order; find's exit status 0 whatever the children do. Non-trivial = (a name contains a shell-special character and some template argument has >= 2 '{}') or a failing child changes the subsequent output. Distinct = distinct case JSON.",
    assumptions: &[
        "starting points are spelled c/r or ./c/r (for -execdir the starting point itself is run from its parent as ./r)",
        "the recorder's log and script travel in the environment, not in argv",
        "children run sequentially, so the invocation index is well defined",
    ],
    run,
    replay,
    fuzz: None,
};

#[derive(Serialize, Deserialize, Debug, Clone)]
pub struct Action {
    pub execdir: bool,
    /// 0 rec, 1 missing command, 2 `true`, 3 `false`, 4 a file without execute permission,
    /// 5 a directory, 6 a path through a regular file (all three exist but cannot be run)
    pub cmd: u8,
    pub template: Vec<String>,
}

#[derive(Serialize, Deserialize, Debug, Clone)]
pub struct Case {
    pub tree: TreeSpec,
    pub root: String,
    pub actions: Vec<Action>,
    /// 0 plain "A1 [A2] -printf T"; 1 "( A1 [A2] -printf T ) -o -printf F"; 2 "! A1 -printf N , -printf E"; 3 "-type f A1 [A2] -printf T"
    pub shape: u8,
    /// exit status per rec invocation (index = order of invocation); 256+s = die by signal s
    pub script: Vec<u16>,
    pub binary: bool,
    /// binary only: find is started with SIGCHLD ignored
    #[serde(default)]
    pub sigchld_ignored: bool,
    pub depth: bool,
}

const PIECES: &[&str] = &["{}", "{}", "x{}y", "{}{}", "{} {}", "-{}-", "a{}b{}c{}", "{", "}", "{ }", "}{", "a b", "$(x)", "*", "", "é{}", "-n", "'{}'", "\"{}\"", "\\{}", "{}\n", ";x", "+"];

fn gen_template(g: &mut Gen) -> Vec<String> {
    let n = g.usize_in(0, 4);
    let mut v: Vec<String> = vec![];
    for _ in 0..n {
        let p = g.pick(PIECES).to_string();
        // "{}" followed by "+" would turn the action into the batching form
        if p == "+" && v.last().map(|l| l == "{}").unwrap_or(false) {
            v.push("+x".into());
        } else {
            v.push(p);
        }
    }
    v
}

pub fn gen_case(g: &mut Gen) -> Case {
    let mut nodes = vec![Node::new("c/r", Kind::Dir)];
    let n = g.usize_in(0, 9);
    for _ in 0..n {
        let dirs: Vec<String> = nodes.iter().filter(|x| x.kind == Kind::Dir && x.path.matches('/').count() < 4).map(|x| x.path.clone()).collect();
        let parent = g.pick(&dirs);
        let name = if g.chance(3, 4) { g.pick(HOSTILE_NAMES).to_string() } else { g.pick(&["a", "b", "f", "d"]).to_string() };
        if name == "." || name == ".." || name.is_empty() {
            continue;
        }
        let path = format!("{parent}/{name}");
        if nodes.iter().any(|x| x.path == path) {
            continue;
        }
        let kind = match g.weighted(&[3, 5, 1]) {
            0 => Kind::Dir,
            1 => Kind::File,
            _ => Kind::Link("nowhere".into()),
        };
        nodes.push(Node::new(path, kind));
    }
    let nact = if g.chance(1, 3) { 2 } else { 1 };
    let actions = (0..nact).map(|_| Action { execdir: g.chance(1, 3), cmd: g.weighted(&[12, 1, 1, 1, 1, 1, 1]) as u8, template: gen_template(g) }).collect();
    let script = g.vec_of(0, 24, |g| match g.weighted(&[6, 3, 1, 1]) {
        0 => 0u16,
        1 => g.pick(&[1u16, 2, 3, 42, 126, 127, 200]),
        2 => 255,
        _ => 256 + g.pick(&[15u16, 9, 10]),
    });
    Case { tree: TreeSpec { nodes }, root: g.pick(&["c/r", "c/r", "./c/r", "c/r/", "c//r", "c/r/.", "c/r/./", "c/up/../r", "c/up/.."]).to_string(), actions, shape: g.below(4) as u8, script, binary: g.chance(1, 8), depth: g.chance(1, 5), sigchld_ignored: g.chance(1, 4) }
}

fn substitute(t: &str, path: &str) -> String {
    t.replace("{}", path)
}

fn script_text(s: &[u16]) -> String {
    s.iter().map(|v| if *v >= 256 { format!("s{}", v - 256) } else { v.to_string() }).collect::<Vec<_>>().join(",")
}

pub fn check(ctx: &mut Ctx, c: &Case) -> Outcome {
    ctx.fresh_case_dir();
    c.tree.build();
    // commands that exist but cannot be run
    let _ = std::fs::remove_file("noexec");
    let _ = std::fs::remove_dir("adir");
    std::fs::write("noexec", b"#!/bin/sh\nexit 0\n").unwrap();
    let _ = std::fs::create_dir("adir");
    // a sibling of the tree: starting points can be spelled through it ("c/up/../r", "c/up/..")
    let _ = std::fs::create_dir("c/up");
    let wo = WalkOpts { follow: FollowMode::P, depth_first: c.depth, ..Default::default() };
    let (entries, _) = ref_paths(&c.root, &wo);
    // expression
    let mut ex: Vec<String> = vec!["-sorted".into()];
    if c.depth {
        ex.push("-depth".into());
    }
    let act_tokens = |a: &Action| -> Vec<String> {
        let mut t = vec![if a.execdir { "-execdir".to_string() } else { "-exec".to_string() }];
        t.push(match a.cmd {
            0 => rec_bin().to_string_lossy().into_owned(),
            1 => "no-such-command-xyz".into(),
            2 => "true".into(),
            3 => "false".into(),
            // created next to the tree, named by absolute path (-execdir changes the directory)
            4 => format!("{}/noexec", std::env::current_dir().unwrap().display()),
            5 => format!("{}/adir", std::env::current_dir().unwrap().display()),
            _ => format!("{}/noexec/sub", std::env::current_dir().unwrap().display()),
        });
        t.extend(a.template.iter().cloned());
        t.push(";".into());
        t
    };
    let acts: Vec<Vec<String>> = c.actions.iter().map(act_tokens).collect();
    let label = |l: &str| vec!["-printf".to_string(), format!("{l}:%p\\0")];
    match c.shape {
        0 => {
            for a in &acts {
                ex.extend(a.iter().cloned());
            }
            ex.extend(label("T"));
        }
        1 => {
            ex.push("(".into());
            for a in &acts {
                ex.extend(a.iter().cloned());
            }
            ex.extend(label("T"));
            ex.push(")".into());
            ex.push("-o".into());
            ex.extend(label("F"));
        }
        2 => {
            ex.push("!".into());
            ex.extend(acts[0].iter().cloned());
            ex.extend(label("N"));
            ex.push(",".into());
            ex.extend(label("E"));
        }
        _ => {
            ex.push("-type".into());
            ex.push("f".into());
            for a in &acts {
                ex.extend(a.iter().cloned());
            }
            ex.extend(label("T"));
        }
    }
    let used_actions: &[Action] = if c.shape == 2 { &c.actions[..1] } else { &c.actions[..] };
    // model
    let cwd_abs = ctx.root.to_string_lossy().into_owned();
    // per expected invocation the acceptable (cwd, args) pairs: one, except for -execdir on a
    // starting point whose spelling ends in '/', '.' or '..' (see `execdir_views`)
    let mut want_records: Vec<Vec<(String, Vec<String>)>> = vec![];
    let canon = |d: &str| std::fs::canonicalize(if d.is_empty() { "." } else { d }).map(|x| x.to_string_lossy().into_owned()).unwrap_or_else(|_| format!("{cwd_abs}/{d}"));
    // (working directory, "./name") pairs under which -execdir may present an entry: the textual split
    // of the path as printed (directory = everything before the last component, '.' and '..' being
    // components) and, for a starting point, the physical one (real parent directory, real name);
    // both satisfy "the file's parent directory as working directory and the path given as ./basename"
    let execdir_views = |p: &str, depth: usize| -> Vec<(String, String)> {
        let t = p.trim_end_matches('/');
        let (par, base) = match t.rfind('/') {
            Some(i) => (&t[..i], &t[i + 1..]),
            None => ("", t),
        };
        let mut v = vec![(canon(par), format!("./{base}"))];
        if depth == 0 {
            if p.ends_with('/') {
                v.push((canon(par), format!("./{base}/")));
            }
            if let Ok(real) = std::fs::canonicalize(p) {
                if let (Some(d), Some(n)) = (real.parent(), real.file_name()) {
                    v.push((d.to_string_lossy().into_owned(), format!("./{}", n.to_string_lossy())));
                }
            }
        }
        v.dedup();
        v
    };
    let mut want_out: Vec<u8> = vec![];
    let mut rec_index = 0usize;
    let mut failing_changes_output = false;
    for e in &entries {
        let p = &e.path;
        if c.shape == 3 && e.type_of() != 'f' {
            continue;
        }
        let mut all_true = true;
        for a in used_actions {
            let views: Vec<(String, String)> = if a.execdir { execdir_views(p, e.depth) } else { vec![(cwd_abs.clone(), p.clone())] };
            let ok = match a.cmd {
                0 => {
                    want_records.push(views.iter().map(|(cwd, sub_path)| (cwd.clone(), a.template.iter().map(|t| substitute(t, sub_path)).collect())).collect());
                    if c.binary {
                        // through the binary the recorder also writes to the stdout it shares with find
                        want_out.extend_from_slice(format!("R{rec_index}\0").as_bytes());
                    }
                    let st = c.script.get(rec_index).copied().unwrap_or(0);
                    rec_index += 1;
                    st == 0
                }
                2 => true,
                _ => false, // missing, `false`, or present but not runnable
            };
            if !ok {
                all_true = false;
                if a.cmd == 0 {
                    failing_changes_output = true;
                }
                break; // -a short-circuits: later actions and the label are skipped
            }
        }
        let mut put = |l: &str| {
            want_out.extend_from_slice(format!("{l}:{p}").as_bytes());
            want_out.push(0);
        };
        match c.shape {
            0 | 3 => {
                if all_true {
                    put("T");
                }
            }
            1 => {
                if all_true {
                    put("T");
                } else {
                    put("F");
                }
            }
            _ => {
                if !all_true {
                    put("N");
                }
                put("E");
            }
        }
    }
    // run
    let log = ctx.root.join("rec.log");
    let _ = std::fs::remove_file(&log);
    let mut args: Vec<String> = vec![c.root.clone()];
    args.extend(ex.iter().cloned());
    let script = script_text(&c.script);
    let (status, stdout, stderr, panic) = if c.binary {
        let a: Vec<OsString> = args.iter().map(OsString::from).collect();
        let o = ctx.run_bin(&find_bin(), &a, &BinOpts { env: vec![("VERIF_REC_LOG".into(), log.clone().into_os_string()), ("VERIF_REC_SCRIPT".into(), script.clone().into()), ("VERIF_REC_STDOUT".into(), "1".into())], ignore_sigchld: c.sigchld_ignored, ..Default::default() });
        if !o.ordinary() {
            return fail("C09:abnormal-termination:binary", format!("find {args:?}\nexit {:?} signal {:?}\nstderr {:?}", o.code, o.signal, lossy(&o.stderr)));
        }
        (o.code.unwrap_or(-1), o.stdout, o.stderr, None)
    } else {
        std::env::set_var("VERIF_REC_LOG", &log);
        std::env::set_var("VERIF_REC_SCRIPT", &script);
        let a: Vec<&str> = args.iter().map(|s| s.as_str()).collect();
        let o = ctx.find(&a);
        (o.status, o.stdout, o.stderr, o.panic)
    };
    let got = read_rec_log(&log);
    let kinds = format!("{}{}", if used_actions.iter().any(|a| a.execdir) { "execdir" } else { "exec" }, if c.binary { ":binary" } else { "" });
    let desc = || {
        format!(
            "find {args:?}\nscript {script:?}\nexit {status}\nstderr {:?}\nexpected records {:?}\nobserved records {:?}\nexpected stdout {:?}\nobserved stdout {:?}",
            lossy(&stderr),
            want_records,
            got.iter().map(|r| (lossy(&r.cwd), r.args.iter().map(|a| lossy(a)).collect::<Vec<_>>())).collect::<Vec<_>>(),
            lossy(&want_out),
            lossy(&stdout)
        )
    };
    if let Some(p) = panic {
        return fail(format!("C09:panic:{}", p.split(": ").next().unwrap_or("?")), desc());
    }
    if got.len() != want_records.len() {
        return fail(format!("C09:number-of-runs-differs:{kinds}:shape{}", c.shape), desc());
    }
    let odd_root = c.root.ends_with('/') || c.root.ends_with("/.") || c.root.ends_with("/..");
    let kinds = if odd_root { format!("{kinds}:starting-point-ends-in-{}", if c.root.ends_with('/') { "slash" } else if c.root.ends_with("/..") { "dotdot" } else { "dot" }) } else { kinds };
    for (g, alts) in got.iter().zip(&want_records) {
        let gargs: Vec<String> = g.args.iter().map(|a| lossy(a)).collect();
        if alts.iter().any(|w| gargs == w.1 && lossy(&g.cwd) == w.0) {
            continue;
        }
        if !alts.iter().any(|w| gargs == w.1) {
            let what = if alts.iter().all(|w| gargs.len() != w.1.len()) { "argv-element-count" } else { "substitution-or-argument-text" };
            return fail(format!("C09:{what}:{kinds}"), desc());
        }
        return fail(format!("C09:working-directory:{kinds}"), desc());
    }
    if stdout != want_out {
        return fail(format!("C09:truth-value-or-order:{kinds}:shape{}", c.shape), desc());
    }
    if status != 0 {
        return fail(format!("C09:find-exit-status-{status}:{kinds}"), desc());
    }
    let special_name = entries.iter().any(|e| e.name().chars().any(|ch| " \n\t'\"\\$*?[{};".contains(ch)) || e.name().starts_with('-'));
    let multi = used_actions.iter().any(|a| a.cmd == 0 && a.template.iter().any(|t| t.matches("{}").count() >= 2));
    Pass::new((special_name && multi && !got.is_empty()) || failing_changes_output)
        .class_if(used_actions.iter().any(|a| a.execdir), "execdir")
        .class_if(used_actions.len() == 2, "two-actions")
        .class_if(failing_changes_output, "failing-child-changes-output")
        .class_if(used_actions.iter().any(|a| a.cmd == 1), "missing-command")
        .class_if(used_actions.iter().any(|a| a.cmd >= 4), "command-exists-but-cannot-be-run")
        .class_if(c.binary, "through-binary")
        .class_if(c.binary && c.sigchld_ignored, "started-with-SIGCHLD-ignored")
        .class_if(multi, "several-braces-in-one-argument")
        .class_if(entries.iter().any(|e| e.name().contains('\n')), "newline-in-name")
        .sample(json!({"cmdline": format!("find {}", args.join(" ")), "script": script, "runs": got.len()}))
        .ok()
}

// ---- names that are not valid UTF-8 ---------------------------------------------------------

#[derive(Serialize, Deserialize, Debug, Clone)]
pub struct RawCase {
    pub names: Vec<Vec<u8>>,
    pub template: Vec<String>,
    pub execdir: bool,
}

fn gen_raw(g: &mut Gen) -> RawCase {
    let frags: &[&[u8]] = &[b"a", b"b ", b"caf", &[0xe9], &[0xff], &[0xc3, 0xa9], &[0xf0, 0x9f], &[0x80], b"{}", b"-", b"\n", b"x", &[0xfe, 0xff]];
    let n = g.usize_in(1, 6);
    let mut names: Vec<Vec<u8>> = vec![];
    for _ in 0..n {
        let mut v = vec![];
        for _ in 0..g.usize_in(1, 4) {
            v.extend_from_slice(g.pick(frags));
        }
        if !names.contains(&v) && v != b"." && v != b".." {
            names.push(v);
        }
    }
    let mut template = gen_template(g);
    if !template.iter().any(|t| t.contains("{}")) {
        template.push(g.pick(&["pre={}", "{}.bak", "<{}|{}>", "{}"]).to_string());
    }
    RawCase { names, template, execdir: g.chance(1, 3) }
}

fn check_raw(ctx: &mut Ctx, c: &RawCase) -> Outcome {
    use std::os::unix::ffi::OsStrExt;
    ctx.fresh_case_dir();
    std::fs::create_dir("c/r").unwrap();
    for n in &c.names {
        std::fs::File::create(std::path::Path::new("c/r").join(std::ffi::OsStr::from_bytes(n))).unwrap();
    }
    let mut sorted = c.names.clone();
    sorted.sort();
    let log = ctx.root.join("rec.log");
    let _ = std::fs::remove_file(&log);
    std::env::set_var("VERIF_REC_LOG", &log);
    std::env::set_var("VERIF_REC_SCRIPT", "");
    let rec = rec_bin().to_string_lossy().into_owned();
    let mut args: Vec<&str> = vec!["c/r", "-mindepth", "1", "-sorted", if c.execdir { "-execdir" } else { "-exec" }, &rec];
    args.extend(c.template.iter().map(|s| s.as_str()));
    args.push(";");
    let o = ctx.find(&args);
    if let Some(p) = o.panic {
        return fail(format!("C09:panic:{}", p.split(": ").next().unwrap_or("?")), format!("find {args:?}: {p}"));
    }
    let got = read_rec_log(&log);
    let subst = |t: &str, path: &[u8]| -> Vec<u8> {
        let mut out = vec![];
        let mut rest = t;
        while let Some(i) = rest.find("{}") {
            out.extend_from_slice(rest[..i].as_bytes());
            out.extend_from_slice(path);
            rest = &rest[i + 2..];
        }
        out.extend_from_slice(rest.as_bytes());
        out
    };
    let want: Vec<Vec<Vec<u8>>> = sorted
        .iter()
        .map(|n| {
            let path: Vec<u8> = if c.execdir { [b"./".as_slice(), n].concat() } else { [b"c/r/".as_slice(), n].concat() };
            c.template.iter().map(|t| subst(t, &path)).collect()
        })
        .collect();
    let got_args: Vec<Vec<Vec<u8>>> = got.iter().map(|r| r.args.clone()).collect();
    if got_args != want || o.status != 0 {
        let kind = if c.execdir { "execdir" } else { "exec" };
        let embedded = c.template.iter().any(|t| t.contains("{}") && t != "{}");
        return fail(
            format!("C09:non-utf8-name:{}:{kind}", if got_args.len() != want.len() { "number-of-runs" } else if embedded { "embedded-braces" } else { "bare-braces" }),
            format!("find {args:?} over names {:?}\nexit {} stderr {:?}\nexpected argv lists (lossy) {:?}\nobserved {:?}", c.names.iter().map(|n| lossy(n)).collect::<Vec<_>>(), o.status, lossy(&o.stderr), want.iter().map(|r| r.iter().map(|a| lossy(a)).collect::<Vec<_>>()).collect::<Vec<_>>(), got_args.iter().map(|r| r.iter().map(|a| lossy(a)).collect::<Vec<_>>()).collect::<Vec<_>>()),
        );
    }
    let invalid = c.names.iter().any(|n| std::str::from_utf8(n).is_err());
    Pass::new(invalid && c.template.iter().any(|t| t.contains("{}") && t != "{}")).class_if(invalid, "non-utf8-name").class_if(c.execdir, "execdir").ok()
}

fn run(w: &mut Worker) {
    w.regress::<Case>("exec", check);
    w.regress::<RawCase>("rawnames", check_raw);
    w.random("rawnames", w.tier.pick(4_000, 50_000), (30, 80), 300, gen_raw, check_raw);
    w.random("exec", w.tier.pick(24_000, 300_000), (60, 300), 600, gen_case, check);
}

fn replay(w: &mut Worker, sub: &str, v: Value) -> Outcome {
    if sub == "rawnames" {
        return check_raw(&mut w.ctx, &decode(v));
    }
    check(&mut w.ctx, &decode(v))
}
