//! C20 — xargs -I: one run per input line, every occurrence replaced by the whole line.

use super::{decode, PropDef};
use crate::engine::proc::{lossy, BinOpts, Ctx};
use crate::engine::xa::{rec_path, run_xargs};
use crate::engine::{fail, Gen, Outcome, Pass, Worker};
use serde::{Deserialize, Serialize};
use serde_json::{json, Value};
use std::ffi::OsString;

pub static DEF: PropDef = PropDef {
    id: "C20",
    rule: "random: 0-12 input lines built from words, inner and trailing blanks, the replacement string R itself, '{}', '%', multi-byte text (1 case in 8 written in Latin-1, so that such lines are not valid UTF-8; compared byte for byte), glob and shell characters (no quotes, backslashes or leading blanks: the statement's domain), blank lines in between, with/without final newline; sub-run delimited: replace mode on -0 / -d ',' input whose items start with blanks and hold quotes, backslashes and (with -0) newlines - ordinary bytes there; sub-run long-input: 1-3 filler lines bring the first run of 2-4 empty lines onto a multiple of 4096/8192/16384 bytes (offset 0..run+1), so that the run is split between two reads; (1 case in 25 without any command: the built-in echo must then print one empty line per input line) 0-4 initial arguments each holding 0-3 occurrences of R (adjacent, embedded, alone); R in {'{}', '_', 'XX', '%', 'é', '{', '{}{}', '-x', '--'}; spellings -I R / -i / --replace / --replace=R; mode options: -I alone, or 2-3 of -I R, -n k, -L k (k in 1..3) in every order. Exhaustive sub-run: the full order matrix of {-I, -n k, -L k} (k in 1..3), 2 or 3 of them, on a fixed three-line input. Oracle: replace mode: records == for each non-empty line in order [initial args with every R replaced by the whole line], nothing appended, exit 0, empty input => no record; the mode is decided by the last of -I/-n/-L (-I with -n 1 in either order is replace mode); -n/-L modes are modelled as in C04 (blank splitting, k arguments / k lines per invocation, initial arguments unchanged). Non-trivial = (a line contains a blank or R, and some initial argument contains R at least twice) or >= 2 mode options are present. Distinct = distinct case JSON.",
    assumptions: &[
        "lines are free of quotes, backslashes and leading blanks (stated domain); a line of only blanks is not generated",
        "-I, -n 1 and -L together: read left to right, -n 1 leaves a -I that is in force in force (it is 'not a conflict'), every other later option takes over",
        "xargs prints a warning on stderr for conflicting mode options; stderr is not asserted",
    ],
    run,
    replay,
    fuzz: None,
};

#[derive(Serialize, Deserialize, Debug, Clone, PartialEq, Eq)]
pub enum ModeOpt {
    I,
    N(usize),
    L(usize),
}

#[derive(Serialize, Deserialize, Debug, Clone)]
pub struct Case {
    pub lines: Vec<String>,
    /// number of empty lines inserted before line i (and one more entry for the end)
    pub blanks_before: Vec<u8>,
    pub final_newline: bool,
    pub initial: Vec<String>,
    pub r: String,
    /// 0 "-I R", 1 "-i", 2 "--replace", 3 "--replace=R"
    pub spelling: u8,
    pub modes: Vec<ModeOpt>,
    /// lengths of filler lines ('f' repeated) placed before `lines`: they move the rest of the input
    /// across the reader's block boundaries
    #[serde(default)]
    pub lead: Vec<u32>,
    /// the input is written in Latin-1: every character of a line up to U+00FF becomes one byte, so
    /// lines with 'é' are not valid UTF-8 (the command line itself stays UTF-8)
    #[serde(default)]
    pub latin1: bool,
    /// 0: lines (newline-separated); 1: -0; 2: -d ',' - the items then also start with blanks and
    /// hold quotes and backslashes, which -0/-d make ordinary bytes
    #[serde(default)]
    pub delim: u8,
    /// no command at all: xargs' own echo runs, with nothing to substitute into and nothing appended
    #[serde(default)]
    pub no_command: bool,
}

/// the bytes a line is written as
fn line_bytes(c: &Case, l: &str) -> Vec<u8> {
    if !c.latin1 {
        return l.as_bytes().to_vec();
    }
    let mut v = vec![];
    for ch in l.chars() {
        if (ch as u32) < 256 {
            v.push(ch as u32 as u8);
        } else {
            v.extend_from_slice(ch.to_string().as_bytes());
        }
    }
    v
}

fn replace_bytes(hay: &[u8], needle: &[u8], with: &[u8]) -> Vec<u8> {
    let mut out = vec![];
    let mut rest = hay;
    while let Some(at) = rest.windows(needle.len()).position(|w| w == needle) {
        out.extend_from_slice(&rest[..at]);
        out.extend_from_slice(with);
        rest = &rest[at + needle.len()..];
    }
    out.extend_from_slice(rest);
    out
}

/// every input line in order, filler lines included
pub fn all_lines(c: &Case) -> Vec<String> {
    c.lead.iter().map(|n| "f".repeat(*n as usize)).chain(c.lines.iter().cloned()).collect()
}

const WORDS: &[&str] = &["a", "b", "foo", "bar", "x1", "é", "日本", "*", "$HOME", "-n", "--", "a.b", ";", "&", "|", "~", "#x", "(", ")"];

fn gen_line(g: &mut Gen, r: &str) -> String {
    let mut s = String::new();
    let n = g.usize_in(1, 4);
    for i in 0..n {
        if i > 0 {
            s.push_str(g.pick(&[" ", " ", "  ", "\t", ""]));
        }
        match g.weighted(&[6, 2, 1, 1]) {
            0 => s.push_str(g.pick(WORDS)),
            1 => s.push_str(r),
            2 => s.push_str("{}"),
            _ => s.push_str(g.pick(&["%", "_", "XX", "{", "}"])),
        }
    }
    if g.chance(1, 6) {
        s.push_str(g.pick(&[" ", "  ", "\t"]));
    }
    // no leading blanks
    s.trim_start().to_string()
}

fn gen_initial(g: &mut Gen, r: &str) -> String {
    // an occurrence of R directly preceded by a proper prefix of R ("{{}}" for "{}"): a scanner that
    // holds back partial matches must re-examine the byte that broke the partial match
    let first: String = r.chars().take(1).collect();
    let has_proper_prefix = r.chars().count() >= 2 && !r[first.len()..].starts_with(&first);
    if has_proper_prefix && g.chance(1, 5) {
        return match g.below(4) {
            0 => format!("{first}{r}"),
            1 => format!("${first}{r}{}", &r[first.len()..]),
            2 => format!("{first}{first}{r}{first}"),
            _ => format!("{r}{first}{r}"),
        };
    }
    match g.weighted(&[3, 3, 2, 2, 1, 1]) {
        0 => g.pick(&["-v", "x", "init", "é", "a b", "--opt=1"]).to_string(),
        1 => r.to_string(),
        2 => format!("pre{r}post"),
        3 => format!("{r}{r}"),
        4 => format!("{r}-{r}-{r}"),
        _ => format!("a {r} b {r}"),
    }
}

pub fn gen_case(g: &mut Gen) -> Case {
    let spelling = g.weighted(&[5, 1, 1, 2]) as u8;
    let r: String = if spelling == 1 || spelling == 2 { "{}".into() } else { g.pick(&["{}", "{}", "_", "XX", "%", "é", "{", "{}{}", "-x", "--"]).to_string() };
    let nlines = if g.chance(1, 10) { 0 } else { g.usize_in(1, 12) };
    let mut lines: Vec<String> = vec![];
    for _ in 0..nlines {
        let l = gen_line(g, &r);
        if !l.is_empty() {
            lines.push(l);
        }
    }
    let blanks_before = (0..=lines.len()).map(|_| if g.chance(1, 5) { g.usize_in(1, 2) as u8 } else { 0 }).collect();
    let initial = g.vec_of(0, 4, |g| gen_initial(g, &r));
    let modes = match g.weighted(&[5, 4, 2]) {
        0 => vec![ModeOpt::I],
        1 => {
            let other = if g.bool() { ModeOpt::N(g.usize_in(1, 3)) } else { ModeOpt::L(g.usize_in(1, 3)) };
            if g.bool() {
                vec![ModeOpt::I, other]
            } else {
                vec![other, ModeOpt::I]
            }
        }
        _ => {
            let mut v = vec![ModeOpt::I, ModeOpt::N(g.usize_in(1, 3)), ModeOpt::L(g.usize_in(1, 3))];
            // permutation
            let p = g.below(6) as usize;
            let perms = [[0, 1, 2], [0, 2, 1], [1, 0, 2], [1, 2, 0], [2, 0, 1], [2, 1, 0]];
            v = perms[p].iter().map(|i| v[*i].clone()).collect();
            v
        }
    };
    Case { lines, blanks_before, final_newline: g.chance(4, 5), initial, r, spelling, modes, lead: vec![], latin1: g.chance(1, 8), delim: 0, no_command: g.chance(1, 25) }
}

/// replace mode on -0 / -d ',' input: items that begin with blanks and contain quotes, backslashes
/// (and, with -0, newlines) must replace R unchanged
pub fn gen_delim_case(g: &mut Gen) -> Case {
    let mut c = gen_case(g);
    c.delim = g.usize_in(1, 2) as u8;
    c.modes = vec![ModeOpt::I];
    c.lead.clear();
    for b in c.blanks_before.iter_mut() {
        *b = 0;
    }
    if c.lines.is_empty() {
        c.lines.push("x".into());
        c.blanks_before.push(0);
    }
    for l in c.lines.iter_mut() {
        if g.chance(1, 2) {
            *l = format!("{}{l}", g.pick(&[" ", "  ", "\t", " \t "]));
        }
        if g.chance(1, 3) {
            let extra = if c.delim == 1 { g.pick(&["'", "\"", "\\", "a'b", "\"q r\"", "\\ ", "x\ny", "\n"]) } else { g.pick(&["'", "\"", "\\", "a'b", "\"q r\"", "\\ ", "\\n", "''"]) };
            l.push_str(extra);
        }
    }
    c
}

/// A case whose first run of empty lines straddles a multiple of the reader's block size (BufReader:
/// 8192 bytes; the blank-separated reader refills 4096 at a time): 1-3 filler lines bring the input to
/// `k * block - d`, then 2-4 empty lines follow, then the ordinary lines.
pub fn gen_long_case(g: &mut Gen) -> Case {
    let mut c = gen_case(g);
    if c.lines.is_empty() {
        c.lines.push("tail".into());
        c.blanks_before.push(0);
    }
    let run = g.usize_in(2, 4);
    c.blanks_before[0] = run as u8;
    let block = g.pick(&[8192usize, 8192, 4096, 16384]);
    let d = g.usize_in(0, run + 1);
    // the newline that ends the last filler line is the first delimiter of the run
    let total = block - d.min(block - 8);
    let nfill = g.usize_in(1, 3).min(total / 4);
    let mut left = total;
    for i in 0..nfill {
        let this = if i + 1 == nfill { left } else { g.usize_in(2, left - 2 * (nfill - i - 1)) };
        c.lead.push((this - 1) as u32);
        left -= this;
    }
    // -s must admit the longest substituted command line: keep the initial arguments short
    c.initial.truncate(2);
    c
}

pub fn render_input(c: &Case) -> Vec<u8> {
    if c.delim != 0 {
        let sep = if c.delim == 1 { 0u8 } else { b',' };
        let mut s: Vec<u8> = vec![];
        for (i, l) in c.lines.iter().enumerate() {
            s.extend_from_slice(&line_bytes(c, l));
            if i + 1 < c.lines.len() || c.final_newline {
                s.push(sep);
            }
        }
        return s;
    }
    let mut s: Vec<u8> = vec![];
    for n in &c.lead {
        s.extend(std::iter::repeat(b'f').take(*n as usize));
        s.push(b'\n');
    }
    for (i, l) in c.lines.iter().enumerate() {
        for _ in 0..c.blanks_before.get(i).copied().unwrap_or(0) {
            s.push(b'\n');
        }
        s.extend_from_slice(&line_bytes(c, l));
        if i + 1 < c.lines.len() || c.final_newline {
            s.push(b'\n');
        }
    }
    if c.final_newline || c.lines.is_empty() {
        for _ in 0..c.blanks_before.get(c.lines.len()).copied().unwrap_or(0) {
            s.push(b'\n');
        }
    }
    s
}

#[derive(Debug, PartialEq, Eq, Clone, Copy)]
pub enum Eff {
    Replace,
    N(usize),
    L(usize),
}

/// The mode in force: the option given last decides, except that `-n 1` does not take the mode away
/// from a `-I` that is in force ("-I with -n 1 is not a conflict"), and `-I` after `-n 1` is in force
/// like after anything else.
pub fn effective(modes: &[ModeOpt]) -> Option<Eff> {
    let mut eff: Option<Eff> = None;
    for m in modes {
        eff = Some(match (eff, m) {
            (Some(Eff::Replace), ModeOpt::N(1)) => Eff::Replace,
            (_, ModeOpt::I) => Eff::Replace,
            (_, ModeOpt::N(k)) => Eff::N(*k),
            (_, ModeOpt::L(k)) => Eff::L(*k),
        });
    }
    eff
}

pub fn cmdline(c: &Case) -> Vec<OsString> {
    let mut o: Vec<OsString> = vec![];
    match c.delim {
        1 => o.push("-0".into()),
        2 => {
            o.push("-d".into());
            o.push(",".into());
        }
        _ => {}
    }
    for m in &c.modes {
        match m {
            ModeOpt::I => match c.spelling {
                0 => {
                    o.push("-I".into());
                    o.push(c.r.clone().into());
                }
                1 => o.push("-i".into()),
                2 => o.push("--replace".into()),
                _ => o.push(format!("--replace={}", c.r).into()),
            },
            ModeOpt::N(k) => {
                o.push("-n".into());
                o.push(k.to_string().into());
            }
            ModeOpt::L(k) => {
                o.push("-L".into());
                o.push(k.to_string().into());
            }
        }
    }
    o
}

fn is_blank(ch: char) -> bool {
    ch == ' ' || ch == '\t'
}

pub fn check(ctx: &mut Ctx, c: &Case) -> Outcome {
    let Some(eff) = effective(&c.modes) else { return Pass::discard("mode combination not decided by the statement") };
    // Latin-1 input only where the replace mode is in force (the other modes are C04's and C05's subject)
    let adjusted;
    let c = if c.latin1 && eff != Eff::Replace {
        adjusted = Case { latin1: false, ..c.clone() };
        &adjusted
    } else {
        c
    };
    let input = render_input(c);
    let lines = all_lines(c);
    if c.no_command && eff == Eff::Replace {
        // one run of the built-in echo per non-empty line, each printing an empty line
        let run = run_xargs(ctx, &cmdline(c), &[], &input, "", BinOpts { clear_env: true, ..Default::default() });
        let want: Vec<u8> = std::iter::repeat(b'\n').take(lines.len()).collect();
        if !run.out.ordinary() || run.out.code != Some(0) || run.out.stdout != want {
            return fail(
                "C20:no-command:line-appended-or-wrong-number-of-runs",
                format!("xargs {} (no command)\ninput {:?}\nexit {:?}\nstdout {:?}\nexpected stdout {:?} (the default command echo, run once per line with no arguments)\nstderr {:?}", cmdline(c).iter().map(|o| o.to_string_lossy().into_owned()).collect::<Vec<_>>().join(" "), lossy(&input), run.out.code, lossy(&run.out.stdout), lossy(&want), lossy(&run.out.stderr)),
            );
        }
        return Pass::new(lines.len() >= 2).class("replace-mode").class("no-command").ok();
    }
    let opts = cmdline(c);
    let mut cmd: Vec<OsString> = vec![rec_path()];
    cmd.extend(c.initial.iter().map(OsString::from));
    // `--` is needed neither by GNU nor here: the command starts at the first non-option word
    let expected: Vec<Vec<String>> = match eff {
        Eff::Replace => lines.iter().map(|l| c.initial.iter().map(|i| i.replace(&c.r, l)).collect()).collect(),
        Eff::N(k) => {
            let toks: Vec<String> = lines.iter().flat_map(|l| l.split(is_blank).filter(|t| !t.is_empty()).map(|t| t.to_string()).collect::<Vec<_>>()).collect();
            if toks.is_empty() {
                vec![c.initial.clone()]
            } else {
                toks.chunks(k).map(|ch| c.initial.iter().cloned().chain(ch.iter().cloned()).collect()).collect()
            }
        }
        Eff::L(k) => {
            // "a line ending in a blank continues on the next line": when that next line is empty the
            // statement does not say whether the continuation ends there (GNU) or carries over
            if lines.iter().enumerate().any(|(i, l)| l.ends_with(is_blank) && i >= c.lead.len() && c.blanks_before.get(i - c.lead.len() + 1).copied().unwrap_or(0) > 0 && i + 1 < lines.len()) {
                return Pass::discard("a line ending in a blank is followed by an empty line (-L mode)");
            }
            // a line ending in a blank continues on the next line
            let mut logical: Vec<Vec<String>> = vec![];
            let mut cont = false;
            for l in &lines {
                let toks: Vec<String> = l.split(is_blank).filter(|t| !t.is_empty()).map(|t| t.to_string()).collect();
                if cont {
                    logical.last_mut().unwrap().extend(toks);
                } else {
                    logical.push(toks);
                }
                cont = l.ends_with(is_blank);
            }
            if logical.is_empty() {
                vec![c.initial.clone()]
            } else {
                logical.chunks(k).map(|ch| c.initial.iter().cloned().chain(ch.iter().flatten().cloned()).collect()).collect()
            }
        }
    };
    let run = run_xargs(ctx, &opts, &cmd, &input, "", BinOpts { clear_env: true, ..Default::default() });
    let got: Vec<Vec<String>> = run.records.iter().map(|r| r.args.iter().map(|a| lossy(a)).collect()).collect();
    // byte-exact comparison for input that is not valid UTF-8
    let raw_mismatch = c.latin1 && {
        let want_b: Vec<Vec<Vec<u8>>> = lines.iter().map(|l| c.initial.iter().map(|i| replace_bytes(i.as_bytes(), c.r.as_bytes(), &line_bytes(c, l))).collect()).collect();
        let got_b: Vec<Vec<Vec<u8>>> = run.records.iter().map(|r| r.args.clone()).collect();
        want_b != got_b
    };
    let modes_s = c.modes.iter().map(|m| match m {
        ModeOpt::I => "I".to_string(),
        ModeOpt::N(k) => format!("n{k}"),
        ModeOpt::L(k) => format!("L{k}"),
    }).collect::<Vec<_>>().join(",");
    let desc = || format!("xargs {} rec {:?}\ninput {:?}\neffective mode {eff:?}\nexit {:?} signal {:?}\nstderr {:?}\nexpected invocations: {:?}\nobserved invocations: {:?}", opts.iter().map(|o| o.to_string_lossy().into_owned()).collect::<Vec<_>>().join(" "), c.initial, lossy(&input), run.out.code, run.out.signal, lossy(&run.out.stderr), expected, got);
    if !run.out.ordinary() {
        return fail(format!("C20:abnormal-termination:{}", if c.lines.is_empty() { "empty-input" } else { "input" }), desc());
    }
    if run.out.code != Some(0) {
        return fail(format!("C20:exit-status-{}:{modes_s}", run.out.code.unwrap_or(-1)), desc());
    }
    if raw_mismatch && got.len() == expected.len() {
        return fail("C20:replacement-text:line-that-is-not-valid-utf8", format!("{}\nobserved argument bytes: {:?}", desc(), run.records.iter().map(|r| r.args.clone()).collect::<Vec<_>>()));
    }
    if got != expected && !c.latin1 || (c.latin1 && raw_mismatch) {
        let what = if eff != Eff::Replace {
            "mode-selection-or-batching"
        } else if got.len() != expected.len() {
            "invocation-count"
        } else if got.iter().zip(&expected).any(|(g, e)| g.len() != e.len()) {
            "argument-count"
        } else {
            "replacement-text"
        };
        let m = if c.modes.len() > 1 { format!("modes[{modes_s}]") } else { "single-I".into() };
        return fail(format!("C20:{what}:{m}"), desc());
    }
    let r_twice = c.initial.iter().any(|i| i.matches(&c.r).count() >= 2);
    let rich_line = c.lines.iter().any(|l| l.contains(is_blank) || l.contains(&c.r));
    Pass::new((r_twice && rich_line && eff == Eff::Replace) || c.modes.len() >= 2)
        .class_if(eff == Eff::Replace, "replace-mode")
        .class_if(eff != Eff::Replace, "n-or-L-mode-wins")
        .class_if(c.modes.len() >= 2, "two-or-more-mode-options")
        .class_if(c.lines.is_empty(), "empty-input")
        .class_if(c.lines.iter().any(|l| l.contains(&c.r)), "line-contains-R")
        .class_if(c.lines.iter().any(|l| l.ends_with(is_blank)), "trailing-blank")
        .class_if(c.spelling != 0, "alternative-spelling")
        .class_if(c.initial.iter().any(|i| { let f: String = c.r.chars().take(1).collect(); c.r.chars().count() >= 2 && i.contains(&format!("{f}{}", c.r)) }), "R-preceded-by-its-own-prefix")
        .class_if(c.r != "{}", "custom-R")
        .class_if(!c.lead.is_empty(), "empty-lines-across-a-block-boundary")
        .class_if(c.latin1 && lines.iter().any(|l| !l.is_ascii()), "input-line-not-valid-utf8")
        .class_if(c.delim != 0, "items-from--0-or--d")
        .sample(json!({"cmdline": format!("xargs {} rec {:?}", opts.iter().map(|o| o.to_string_lossy().into_owned()).collect::<Vec<_>>().join(" "), c.initial), "input": if input.len() > 300 { format!("{} bytes; lead lines {:?}; then {:?}", input.len(), c.lead, lossy(&input[input.len() - 120..])) } else { lossy(&input) }, "invocations": got.len()}))
        .ok()
}

fn run(w: &mut Worker) {
    w.regress::<Case>("replace", check);
    // the full order matrix on a fixed input
    let mut matrix: Vec<Case> = vec![];
    let opts: Vec<ModeOpt> = vec![ModeOpt::I, ModeOpt::N(1), ModeOpt::N(2), ModeOpt::N(3), ModeOpt::L(1), ModeOpt::L(2), ModeOpt::L(3)];
    let kind = |m: &ModeOpt| match m {
        ModeOpt::I => 0,
        ModeOpt::N(_) => 1,
        ModeOpt::L(_) => 2,
    };
    let base = |modes: Vec<ModeOpt>, spelling: u8| Case { lines: vec!["a b".into(), "c".into(), "d e f".into(), "g".into(), "h i".into()], blanks_before: vec![0, 0, 1, 0, 0, 0], final_newline: true, initial: vec!["<{}>".into(), "k".into()], r: "{}".into(), spelling, modes, lead: vec![], latin1: false, delim: 0, no_command: false };
    for a in &opts {
        for b in &opts {
            if kind(a) == kind(b) {
                continue;
            }
            for sp in 0..4u8 {
                matrix.push(base(vec![a.clone(), b.clone()], sp));
            }
            for c3 in &opts {
                if kind(c3) == kind(a) || kind(c3) == kind(b) {
                    continue;
                }
                matrix.push(base(vec![a.clone(), b.clone(), c3.clone()], 0));
            }
        }
    }
    w.exhaustive("mode-matrix", "every ordered choice of 2 or 3 of {-I, -n k, -L k}, k in 1..3 (x 4 spellings for pairs)", matrix.into_iter(), check);
    w.random("replace", w.tier.pick(6_000, 80_000), (40, 200), 500, gen_case, check);
    w.random("delimited", w.tier.pick(3_000, 40_000), (40, 200), 300, gen_delim_case, check);
    w.random("long-input", w.tier.pick(1_200, 16_000), (40, 200), 200, gen_long_case, check);
}

fn replay(w: &mut Worker, _sub: &str, v: Value) -> Outcome {
    check(&mut w.ctx, &decode(v))
}
