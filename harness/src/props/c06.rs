//! C06 — xargs never builds a command line the operating system rejects.

use super::{decode, PropDef};
use crate::engine::proc::{lossy, BinOpts, Ctx};
use crate::engine::xa::{rec_path, run_xargs};
use crate::engine::{fail, Gen, Outcome, Pass, Worker};
use serde::{Deserialize, Serialize};
use serde_json::{json, Value};
use std::ffi::OsString;

pub static DEF: PropDef = PropDef {
    id: "C06",
    rule: "random: argument count log-uniform in [1, 400000] x length profile {all 1 byte, 1-20 bytes, page-sized, mostly small with a few within 0-2 bytes of the per-argument limit (131071 bytes + NUL), mixed} (total input capped at ~12 MB) x environment size {minimal, 1/4, 3/4 of the kernel budget, spread over few large or many small variables} x RLIMIT_STACK {256 KiB, 1 MiB, 8 MiB, 64 MiB, unlimited} (kernel budget 128 KiB .. 6 MiB; set with setrlimit in the child before exec) x length of the path the command is named by {short, 900, 2300, 3900 bytes; in a third of those cases the command is a '#!' script in that directory, found through PATH} x fixed arguments after the command {none, 3000, 9000, 20000, 60000 bytes: part of every command line} x options {none, -n N, -s S (also S above the system limit), -L N}; NUL-separated input. A third sub-run runs xargs -I{} with templates holding 1-8 occurrences of {} per argument on lines sized so that the SUBSTITUTED arguments approach or exceed the per-argument limit or the whole budget. A second sub-run places one argument of 131072..400000 bytes (over the per-argument limit) at a random position. Oracle: the kernel itself - the built xargs binary runs the rec recorder; violation iff xargs exits 126 / reports 'Argument list too long' / any other status than 0, or the concatenation of the recorded arguments differs from the input (nothing lost, duplicated or reordered); for an oversized argument: exit status 1, a diagnostic, and no recorded invocation contains it or anything after it. Non-trivial = total argv bytes + 8 bytes of pointer per argument exceed the kernel budget of the chosen stack limit (>= 2 invocations are required), or an argument within 2 bytes of the per-argument limit is present. Distinct = distinct case JSON.",
    assumptions: &[
        "Linux: per-argument limit MAX_ARG_STRLEN = 131072 bytes including the terminator; total budget max(min(RLIMIT_STACK/4, 6 MiB), 128 KiB) for strings plus one pointer per argument and environment entry",
        "the running kernel of this sandbox is the oracle for 'accepted by exec'",
        "the environment is kept below 3/4 of the budget so that a base command exists at all",
    ],
    run,
    replay,
    fuzz: None,
};

pub const MAX_ARG_STRLEN: usize = 131072;

#[derive(Serialize, Deserialize, Debug, Clone)]
pub struct Case {
    pub count: usize,
    /// 0 all 1 byte, 1 1-20 bytes, 2 page-sized, 3 small + a few near the per-argument limit, 4 mixed
    pub profile: u8,
    /// seed of the deterministic length sequence
    pub len_seed: u64,
    /// 0 minimal, 1 quarter of budget, 2 three quarters; bit 4: many small variables instead of few large
    pub env: u8,
    /// 0 256 KiB, 1 1 MiB, 2 8 MiB, 3 64 MiB, 4 unlimited
    pub stack: u8,
    /// 0 none, 1 -n, 2 -s, 3 -L
    pub opt: u8,
    pub opt_value: usize,
    /// Some((position, length)): one argument over the per-argument limit
    pub oversize: Option<(usize, usize)>,
    /// what the arguments (and environment values) are made of: 0 ASCII letters, 1 four-byte UTF-8
    /// characters (bytes != characters), 2 bytes that are not valid UTF-8
    #[serde(default)]
    pub content: u8,
    /// bytes of fixed (initial) arguments after the command: they are part of every command line
    #[serde(default)]
    pub fixed: u32,
    /// length of the (relative) path the command is named by; 0 = the recorder's own short path
    #[serde(default)]
    pub cmd_path: u16,
    /// with a long command path: the command is a '#!' script there (the kernel then copies its path
    /// a second time, plus the interpreter) and is found through PATH (the command word stays short)
    #[serde(default)]
    pub script_via_path: bool,
}

fn fill(len: usize, i: usize, content: u8) -> Vec<u8> {
    match content {
        1 => {
            let mut v = Vec::with_capacity(len);
            while v.len() + 4 <= len {
                v.extend_from_slice("\u{1F600}".as_bytes());
            }
            while v.len() < len {
                v.push(b'a' + (i % 26) as u8);
            }
            v
        }
        2 => vec![0xF5 + (i % 8) as u8; len],
        _ => vec![b'a' + (i % 26) as u8; len],
    }
}

/// what an implementation may set aside for the name of the executed file (the kernel copies it into
/// the same space): arguments this close to the budget may be refused rather than passed
const PATH_MAX_ROOM: usize = 2 * 4096 + 256;

fn stack_bytes(s: u8) -> u64 {
    match s {
        0 => 256 << 10,
        1 => 1 << 20,
        2 => 8 << 20,
        3 => 64 << 20,
        _ => u64::MAX,
    }
}

pub fn budget(s: u8) -> usize {
    let st = stack_bytes(s);
    let quarter = if st == u64::MAX { usize::MAX } else { (st / 4) as usize };
    quarter.min(6 << 20).max(128 << 10)
}

fn lcg(x: &mut u64) -> u64 {
    *x = x.wrapping_mul(6364136223846793005).wrapping_add(1442695040888963407);
    *x >> 33
}

pub fn lengths(c: &Case) -> Vec<usize> {
    let mut x = c.len_seed | 1;
    let cap: usize = 12 << 20;
    let mut total = 0usize;
    let mut v = Vec::with_capacity(c.count.min(1 << 20));
    for i in 0..c.count {
        let r = lcg(&mut x) as usize;
        let l = match c.profile {
            0 => 1,
            1 => 1 + r % 20,
            2 => 4000 + r % 200,
            3 => {
                if r % 97 == 0 || i == 0 {
                    MAX_ARG_STRLEN - 1 - (r / 97) % 3
                } else {
                    1 + r % 12
                }
            }
            _ => match r % 10 {
                0 => 4096 + (r / 10) % 4096,
                1 => 200 + (r / 10) % 2000,
                2 => {
                    if (r / 10) % 50 == 0 {
                        MAX_ARG_STRLEN - 1 - (r / 500) % 3
                    } else {
                        64
                    }
                }
                _ => 1 + (r / 10) % 30,
            },
        };
        if total + l + 1 > cap {
            break;
        }
        total += l + 1;
        v.push(l);
    }
    if v.is_empty() {
        v.push(1);
    }
    v
}

pub fn gen_case(g: &mut Gen) -> Case {
    let profile = g.weighted(&[3, 3, 2, 2, 3]) as u8;
    // near-limit arguments need a budget that can hold one at all: mostly larger stacks for them
    let stack = if profile >= 3 { g.weighted(&[1, 3, 4, 2, 2]) as u8 } else { g.weighted(&[4, 3, 3, 2, 2]) as u8 };
    let avg_cost = match profile {
        0 => 10,
        1 => 19,
        2 => 4108,
        3 => 1380,
        _ => 1200,
    };
    let count = if g.chance(2, 3) {
        // sized against the kernel budget: 0.8 .. 6 budgets' worth of strings + pointers
        let factor = 80 + g.below(520) as usize;
        (budget(stack) / 100 * factor / avg_cost).clamp(1, 400_000)
    } else {
        // log-uniform
        let max_exp = match profile {
            0 | 1 => 18.6, // ~400000
            2 => 11.5,     // ~2900
            3 => 12.0,
            _ => 14.0,
        };
        let e = g.below(10_000) as f64 / 10_000.0 * max_exp;
        (2f64.powf(e) as usize).clamp(1, 400_000)
    };
    let mut c = Case { count, profile, len_seed: g.u64_any(), env: (g.weighted(&[3, 2, 2]) as u8) | if g.bool() { 16 } else { 0 }, stack, opt: g.weighted(&[5, 2, 3, 1]) as u8, opt_value: 0, oversize: None, content: g.weighted(&[3, 2, 1]) as u8, fixed: g.pick(&[0u32, 0, 0, 0, 3000, 9000, 20000, 60000]), cmd_path: g.pick(&[0u16, 0, 0, 0, 0, 900, 2300, 3900]), script_via_path: g.chance(1, 3) };
    if c.script_via_path && c.cmd_path > 0 {
        // the script's interpreter (dash) takes seconds to import tens of thousands of environment
        // entries, once per invocation: keep the environment in few large entries there
        c.env &= 15;
    }
    c
}

fn finish_opts(g: &mut Gen, mut c: Case) -> Case {
    // keep the number of invocations bounded (each one is a process): the limits are lower-bounded
    // by count/250 resp. total/250
    let lens = lengths(&c);
    let total: usize = lens.iter().map(|l| l + 9).sum();
    let longest = lens.iter().copied().max().unwrap_or(1).max(c.oversize.map_or(0, |o| o.1));
    let min_n = lens.len() / 250 + 1;
    c.opt_value = match c.opt {
        1 | 3 => {
            let hi = if g.bool() { 50 } else { 200_000 };
            (1 + g.below(hi) as usize).max(min_n)
        }
        2 => {
            // -s is xargs' own limit: an argument that does not fit into it is C04's subject, so S
            // always has room for the longest argument and the command
            let floor = (total / 250).max(longest + 200);
            floor
                + match g.below(4) {
                    0 => g.below(10_000) as usize,
                    1 => 100_000 + g.below(200_000) as usize,
                    2 => (budget(c.stack) - 3000 + g.below(6000) as usize).saturating_sub(floor),
                    _ => 7_000_000 + g.below(100_000_000) as usize,
                }
        }
        _ => 0,
    };
    c
}

fn gen_plain(g: &mut Gen) -> Case {
    let c = gen_case(g);
    finish_opts(g, c)
}

fn gen_oversize(g: &mut Gen) -> Case {
    let mut c = gen_case(g);
    c.count = c.count.min(3000);
    if c.profile == 2 {
        c.profile = 1;
    }
    let len = match g.below(4) {
        0 => MAX_ARG_STRLEN,
        1 => MAX_ARG_STRLEN + 1,
        2 => MAX_ARG_STRLEN + g.below(5000) as usize,
        _ => MAX_ARG_STRLEN + g.below(270_000) as usize,
    };
    c.oversize = Some((g.below(c.count as u64 + 1) as usize, len));
    // -s below the oversize argument would make it xargs' own -s error (C04); keep -s large or absent
    if c.opt == 2 {
        c.opt = 0;
    }
    finish_opts(g, c)
}

fn build_env(c: &Case) -> Vec<(OsString, OsString)> {
    let b = budget(c.stack);
    let target = match c.env & 15 {
        0 => 0,
        1 => b / 4,
        _ => b * 3 / 4 - 8192,
    };
    let many = c.env & 16 != 0;
    let mut v = vec![];
    let mut left = target;
    let mut i = 0;
    while left > 64 {
        // each entry costs name + '=' + value + NUL (+ a pointer, which xargs must account for)
        let val = if many { 24.min(left) } else { 100_000.min(left) };
        v.push((OsString::from(format!("VERIF_PAD_{i:06}")), {
            use std::os::unix::ffi::OsStringExt;
            OsString::from_vec(fill(val, i, if c.content == 2 { 0 } else { c.content }))
        }));
        left = left.saturating_sub(val + 20 + if many { 8 } else { 0 });
        i += 1;
    }
    v
}

pub fn check(ctx: &mut Ctx, c: &Case) -> Outcome {
    let lens = lengths(c);
    let mut args: Vec<Vec<u8>> = Vec::with_capacity(lens.len() + 1);
    for (i, l) in lens.iter().enumerate() {
        args.push(fill(*l, i, c.content));
    }
    if let Some((pos, len)) = c.oversize {
        let p = pos.min(args.len());
        let mut big = fill(len, 0, c.content);
        big[0] = b'Z';
        args.insert(p, big);
    }
    let mut input = Vec::with_capacity(args.iter().map(|a| a.len() + 1).sum());
    for a in &args {
        input.extend_from_slice(a);
        input.push(0);
    }
    let mut opts: Vec<OsString> = vec!["-0".into()];
    match c.opt {
        1 => {
            opts.push("-n".into());
            opts.push(c.opt_value.to_string().into());
        }
        2 => {
            opts.push("-s".into());
            opts.push(c.opt_value.to_string().into());
        }
        3 => {
            opts.push("-L".into());
            opts.push(c.opt_value.to_string().into());
        }
        _ => {}
    }
    // the command named by a long relative path (a chain of directories holding a link to the
    // recorder): the kernel charges the executed file's name besides argv[0]
    let mut script_dir: Option<std::path::PathBuf> = None;
    let cmd0: OsString = if c.cmd_path > 0 {
        let mut p = String::from("L");
        while p.len() + 252 < c.cmd_path as usize {
            p.push('/');
            p.push_str(&"d".repeat(250));
        }
        let rest = (c.cmd_path as usize).saturating_sub(p.len() + 3).clamp(1, 250);
        p.push('/');
        p.push_str(&"e".repeat(rest));
        let _ = std::fs::create_dir_all(ctx.root.join(&p));
        let link = format!("{p}/r");
        let _ = std::fs::remove_file(ctx.root.join(&link));
        if c.script_via_path {
            use std::os::unix::fs::PermissionsExt;
            std::fs::write(ctx.root.join(&link), format!("#!/bin/sh\nexec {} \"$@\"\n", rec_path().to_string_lossy())).unwrap();
            std::fs::set_permissions(ctx.root.join(&link), std::fs::Permissions::from_mode(0o755)).unwrap();
            script_dir = Some(ctx.root.join(&p));
            "r".into()
        } else {
            std::os::unix::fs::symlink(rec_path(), ctx.root.join(&link)).unwrap();
            link.into()
        }
    } else {
        rec_path()
    };
    let mut env = build_env(c);
    if let Some(d) = &script_dir {
        env.push(("PATH".into(), format!("{}:{}", d.display(), crate::engine::proc::safe_path_dir().display()).into()));
    }
    let env_bytes: usize = env.iter().map(|(k, v)| k.len() + v.len() + 2).sum();
    // fixed arguments: only where they leave room for the longest argument
    let longest_arg = args.iter().map(|a| a.len()).max().unwrap_or(0);
    let mut fixed_total = c.fixed as usize;
    if fixed_total + fixed_total / 1000 * 8 + 64 + rec_path().len() + 2 * c.cmd_path as usize + PATH_MAX_ROOM + 2048 + 4096 + env_bytes + env.len() * 8 + longest_arg.min(MAX_ARG_STRLEN) + 9 + 4096 > budget(c.stack) {
        fixed_total = 0;
    }
    let fixed_args: Vec<OsString> = {
        let mut v = vec![];
        let mut left = fixed_total;
        while left > 0 {
            let n = left.min(20_000);
            v.push(OsString::from("F".repeat(n - 1)));
            left -= n;
        }
        v
    };
    if c.opt == 2 && (fixed_total > 0 || c.cmd_path > 0) {
        let n = opts.len();
        opts[n - 1] = (c.opt_value + fixed_total + c.cmd_path as usize + 16).to_string().into();
    }
    let mut cmd: Vec<OsString> = vec![cmd0.clone()];
    cmd.extend(fixed_args.iter().cloned());
    let bo = BinOpts { clear_env: true, env: env.clone(), stack_limit: Some(stack_bytes(c.stack)), timeout_s: 300, ..Default::default() };
    let run = run_xargs(ctx, &opts, &cmd, &input, "", bo);
    let b = budget(c.stack);
    let total_with_ptrs: usize = args.iter().map(|a| a.len() + 1 + 8).sum::<usize>() + env_bytes + env.len() * 8;
    let near_limit = args.iter().any(|a| a.len() + 1 <= MAX_ARG_STRLEN && a.len() + 3 >= MAX_ARG_STRLEN);
    let prof = match c.profile {
        0 => "1-byte-args",
        1 => "small-args",
        2 => "page-sized-args",
        3 => "near-limit-args",
        _ => "mixed-args",
    };
    let desc = || {
        format!(
            "xargs {} rec [{fixed_total} bytes of fixed arguments]  < {} NUL-separated arguments ({} bytes, profile {prof}, longest {}), RLIMIT_STACK {} (kernel budget {b}), environment {} entries / {env_bytes} bytes\nexit {:?} signal {:?}\nstderr {:?}\ninvocations recorded: {} (arguments delivered: {})",
            opts.iter().map(|o| o.to_string_lossy().into_owned()).collect::<Vec<_>>().join(" "),
            args.len(),
            input.len(),
            args.iter().map(|a| a.len()).max().unwrap_or(0),
            if stack_bytes(c.stack) == u64::MAX { "unlimited".to_string() } else { stack_bytes(c.stack).to_string() },
            env.len(),
            run.out.code,
            run.out.signal,
            lossy(&run.out.stderr[..run.out.stderr.len().min(600)]),
            run.records.len(),
            run.records.iter().map(|r| r.args.len()).sum::<usize>()
        )
    };
    let stderr_s = lossy(&run.out.stderr);
    let e2big = stderr_s.contains("Argument list too long") || stderr_s.contains("os error 7");
    if !run.out.ordinary() {
        return fail(format!("C06:abnormal-termination:{prof}"), desc());
    }
    if run.records.iter().any(|r| r.args.len() < fixed_args.len() || r.args.iter().zip(&fixed_args).any(|(a, f)| a.as_slice() != f.as_encoded_bytes())) {
        return fail(format!("C06:fixed-arguments-changed:{prof}"), desc());
    }
    let delivered: Vec<&Vec<u8>> = run.records.iter().flat_map(|r| r.args.iter().skip(fixed_args.len())).collect();
    // An argument within the per-argument limit may still be too large for the whole budget
    // (base command, environment, pointers, headroom): nobody can pass it, and the statement only
    // requires that no rejected command line is built.  `tight(a)`: not certain to fit.
    let base_cost = 2 * cmd0.len() + 2 + 8 + 16 + 2048 + 4096 + PATH_MAX_ROOM + if script_dir.is_some() { 2 * (c.cmd_path as usize + 300) } else { 0 } + env_bytes + env.len() * 8 + fixed_total + fixed_args.len() * 8;
    let tight = |a: &Vec<u8>| a.len() + 1 + 8 + base_cost > b;
    match c.oversize {
        None => {
            if e2big || run.out.code == Some(126) {
                let why = if script_dir.is_some() { "script-found-through-a-long-PATH-directory" } else if c.cmd_path as usize > 2048 { "command-path-longer-than-the-headroom" } else if near_limit { "per-argument-limit" } else if c.env & 15 != 0 { "with-large-environment" } else { "pointer-overhead" };
                return fail(format!("C06:exec-rejected-command-line:{prof}:{why}"), desc());
            }
            if run.out.code == Some(1) && args.iter().any(tight) {
                // refused rather than built: must be diagnosed, everything before it delivered unchanged
                let n = delivered.len();
                if run.out.stderr.is_empty() || n >= args.len() || !tight(&args[n]) || delivered.iter().zip(&args).any(|(a, b)| *a != b) {
                    return fail(format!("C06:argument-exceeding-the-budget-not-refused-cleanly:{prof}"), desc());
                }
                return Pass::new(true).class("argument-larger-than-whole-budget-refused").class(prof).ok();
            }
            if run.out.code != Some(0) {
                return fail(format!("C06:exit-status-{}:{prof}", run.out.code.unwrap_or(-1)), desc());
            }
            if delivered.len() != args.len() || delivered.iter().zip(&args).any(|(a, b)| *a != b) {
                return fail(format!("C06:arguments-lost-or-changed:{prof}"), desc());
            }
        }
        Some((pos, len)) => {
            let p = pos.min(args.len() - 1);
            if e2big || run.out.code == Some(126) {
                return fail("C06:oversized-argument-handed-to-exec", desc());
            }
            if run.out.code != Some(1) {
                return fail(format!("C06:oversized-argument:exit-status-{}", run.out.code.unwrap_or(-1)), desc());
            }
            if run.out.stderr.is_empty() {
                return fail("C06:oversized-argument:no-diagnostic", desc());
            }
            if delivered.iter().any(|a| a.len() == len && a[0] == b'Z') {
                return fail("C06:oversized-argument-delivered", desc());
            }
            // what was delivered is a prefix of the arguments before the oversized one
            if delivered.len() > p || delivered.iter().zip(&args).any(|(a, b)| *a != b) {
                return fail("C06:oversized-argument:delivered-not-a-prefix", desc());
            }
        }
    }
    let nt = total_with_ptrs > b || near_limit || c.oversize.is_some();
    Pass::new(nt)
        .class(prof)
        .class_if(total_with_ptrs > b, "several-invocations-required")
        .class_if(near_limit, "argument-within-2-bytes-of-limit")
        .class_if(c.env & 15 != 0, "large-environment")
        .class_if(c.oversize.is_some(), "oversized-argument")
        .class_if(c.content == 1, "multi-byte-characters")
        .class_if(c.content == 2, "non-utf8-bytes")
        .class_if(fixed_total > 0, "fixed-arguments")
        .class_if(c.cmd_path as usize > 2048, "command-path-longer-than-the-headroom")
        .class_if(script_dir.is_some(), "script-found-through-PATH")
        .class_if(fixed_total > 2048 && total_with_ptrs > b, "fixed-arguments-larger-than-the-headroom-and-several-invocations")
        .class(match c.stack {
            0 => "stack-256KiB",
            1 => "stack-1MiB",
            2 => "stack-8MiB",
            3 => "stack-64MiB",
            _ => "stack-unlimited",
        })
        .sample(json!({"cmdline": format!("xargs {} rec", opts.iter().map(|o| o.to_string_lossy().into_owned()).collect::<Vec<_>>().join(" ")), "arguments": args.len(), "bytes": input.len(), "profile": prof, "budget": b, "env_bytes": env_bytes, "invocations": run.records.len(), "oversize": c.oversize}))
        .ok()
}

// ---- replace mode: the command line is built by substitution ---------------------------------

#[derive(Serialize, Deserialize, Debug, Clone)]
pub struct ReplCase {
    /// lengths of the input lines
    pub lines: Vec<usize>,
    /// per initial argument: how many times {} occurs in it
    pub copies: Vec<u8>,
    pub stack: u8,
}

fn gen_repl(g: &mut Gen) -> ReplCase {
    let stack = g.weighted(&[3, 3, 3, 2]) as u8;
    let b = budget(stack);
    let n = g.usize_in(1, 4);
    let copies: Vec<u8> = g.vec_of(1, 3, |g| g.pick(&[1u8, 1, 2, 3, 8]));
    let total_copies: usize = copies.iter().map(|c| *c as usize).sum();
    let lines = (0..n)
        .map(|_| match g.below(6) {
            0 => g.usize_in(1, 100),
            1 => MAX_ARG_STRLEN / copies.iter().copied().max().unwrap_or(1) as usize - 2 + g.usize_in(0, 4),
            2 => (b / total_copies).saturating_sub(3000) + g.usize_in(0, 6000),
            3 => g.usize_in(30_000, 131_000),
            4 => MAX_ARG_STRLEN - 2 + g.usize_in(0, 3),
            _ => g.usize_in(1000, 20_000),
        }.max(1))
        .collect();
    ReplCase { lines, copies, stack }
}

/// `xargs -I{} rec ARG...` where every ARG holds one or more {}: the substituted arguments may
/// exceed the per-argument limit or the whole budget although every input line is far below both.
/// Oracle: exec never rejects a command line (no status 126 / E2BIG); a line is either delivered
/// substituted byte for byte, or refused with a diagnostic and exit status 1 (and nothing after it runs).
fn check_repl(ctx: &mut Ctx, c: &ReplCase) -> Outcome {
    let lines: Vec<Vec<u8>> = c.lines.iter().enumerate().map(|(i, l)| vec![b'a' + (i % 26) as u8; *l]).collect();
    let mut input = Vec::new();
    for l in &lines {
        input.extend_from_slice(l);
        input.push(b'\n');
    }
    let templates: Vec<String> = c.copies.iter().map(|k| vec!["{}"; *k as usize].join(":")).collect();
    let mut cmd: Vec<OsString> = vec![rec_path()];
    cmd.extend(templates.iter().map(OsString::from));
    let bo = BinOpts { clear_env: true, stack_limit: Some(stack_bytes(c.stack)), timeout_s: 120, ..Default::default() };
    let run = run_xargs(ctx, &["-I".into(), "{}".into()], &cmd, &input, "", bo);
    let expand = |line: &[u8]| -> Vec<Vec<u8>> { c.copies.iter().map(|k| vec![line.to_vec(); *k as usize].join(&b':')).collect() };
    let b = budget(c.stack);
    let desc = || format!("xargs -I{{}} rec {templates:?}  < lines of {:?} bytes, RLIMIT_STACK {} (budget {b})\nexit {:?} signal {:?}\nstderr {:?}\ninvocations {}", c.lines, if stack_bytes(c.stack) == u64::MAX { "unlimited".to_string() } else { stack_bytes(c.stack).to_string() }, run.out.code, run.out.signal, lossy(&run.out.stderr[..run.out.stderr.len().min(400)]), run.records.len());
    if !run.out.ordinary() {
        return fail("C06:replace-mode:abnormal-termination", desc());
    }
    let stderr_s = lossy(&run.out.stderr);
    if run.out.code == Some(126) || stderr_s.contains("Argument list too long") || stderr_s.contains("os error 7") {
        return fail("C06:replace-mode:exec-rejected-substituted-command-line", desc());
    }
    // what certainly fits / certainly does not
    let fits = |line: &[u8]| {
        let ex = expand(line);
        let total: usize = ex.iter().map(|a| a.len() + 9).sum::<usize>() + rec_path().len() + 9 + 16 + 2048 + 4096 + PATH_MAX_ROOM;
        ex.iter().all(|a| a.len() < MAX_ARG_STRLEN) && total <= b
    };
    let impossible = |line: &[u8]| {
        let ex = expand(line);
        let total: usize = ex.iter().map(|a| a.len() + 1).sum::<usize>();
        ex.iter().any(|a| a.len() + 1 > MAX_ARG_STRLEN) || total > b
    };
    for (i, r) in run.records.iter().enumerate() {
        if i >= lines.len() || r.args != expand(&lines[i]) {
            return fail("C06:replace-mode:substituted-arguments-differ", desc());
        }
    }
    let n = run.records.len();
    match run.out.code {
        Some(0) => {
            if n != lines.len() {
                return fail("C06:replace-mode:line-lost", desc());
            }
            if lines.iter().any(|l| impossible(l)) {
                return fail("C06:replace-mode:impossible-command-line-reported-as-run", desc());
            }
        }
        Some(1) => {
            if run.out.stderr.is_empty() || n >= lines.len() || fits(&lines[n]) {
                return fail("C06:replace-mode:refused-a-line-that-fits-or-without-diagnostic", desc());
            }
        }
        other => return fail(format!("C06:replace-mode:exit-status-{other:?}"), desc()),
    }
    let tight = lines.iter().any(|l| !fits(l));
    Pass::new(tight).class("replace-mode").class_if(tight, "replace-mode-substitution-near-or-over-a-limit").class_if(run.out.code == Some(1), "replace-mode-refused").sample(json!({"cmdline": format!("xargs -I{{}} rec {templates:?}"), "line_lengths": c.lines, "budget": b, "exit": run.out.code})).ok()
}

fn run(w: &mut Worker) {
    w.regress::<ReplCase>("replace", check_repl);
    w.random("replace", w.tier.pick(160, 2_000), (16, 40), 30, gen_repl, check_repl);
    w.regress::<Case>("limits", check);
    w.regress::<Case>("oversize", check);
    w.random("limits", w.tier.pick(320, 4_000), (16, 40), 30, gen_plain, check);
    w.random("oversize", w.tier.pick(96, 1_000), (16, 40), 30, gen_oversize, check);
}

fn replay(w: &mut Worker, sub: &str, v: Value) -> Outcome {
    if sub == "replace" {
        return check_repl(&mut w.ctx, &decode(v));
    }
    check(&mut w.ctx, &decode(v))
}
