//! C14 — numeric operands: N / +N / -N trichotomy and -size unit rounding.

use super::{decode, PropDef};
use crate::engine::fsx::{Kind, Node, TreeSpec};
use crate::engine::proc::{lossy, Ctx};
use crate::engine::{fail, Gen, Outcome, Pass, Worker};
use serde::{Deserialize, Serialize};
use serde_json::{json, Value};
use std::os::unix::fs::MetadataExt;
use std::time::{Duration, SystemTime, UNIX_EPOCH};

pub static DEF: PropDef = PropDef {
    id: "C14",
    rule: "a fixed directory of ~150 sparse files with sizes k*u-1, k*u, k*u+1 for every unit u in {1,2,512,2^10,2^20,2^30} and k in {0,1,2,3,5} (up to 5 GiB), and k*u +/- 2^e for every e < log2(u), k in {1,2}, hard-link counts 1-5, owners {0,1,65534,54321}, and a/m-times at now - (k*period +/- 1s, +/- 1ns) under an injected clock; random operands: test in {-size with every unit suffix, -links, -inum, -uid, -gid, -atime/-mtime, -amin/-mmin} x N at/around every measured value, 0, and near 2^63 / 2^64-1. Per case five in-process runs (N, +N, -N, +(N+1), -(N+1)). Oracle: model value (ceil(size/unit), stat field, whole elapsed periods): exactly one of the three forms selects each file and it is the one the model predicts; +N selections shrink and -N selections grow with N. Non-trivial = N lies within +/-1 of some file's measured value. Distinct = distinct case JSON.",
    assumptions: &["sparse files on the sandbox file system report st_size faithfully", "ctime cannot be set; -ctime/-cmin are exercised in C15 with read-back timestamps", "N > 2^64-1 is an invalid operand (C11), not generated here"],
    run,
    replay,
    fuzz: None,
};

const NOW_S: u64 = 2_000_000_000;

#[derive(Serialize, Deserialize, Debug, Clone)]
pub struct Case {
    /// "-size" | "-links" | "-inum" | "-uid" | "-gid" | "-mtime" | "-atime" | "-mmin" | "-amin"
    pub test: String,
    pub n: u64,
    /// -size suffix: "", "c", "w", "b", "k", "M", "G"
    pub unit: String,
}

fn unit_bytes(u: &str) -> u64 {
    match u {
        "c" => 1,
        "w" => 2,
        "" | "b" => 512,
        "k" => 1 << 10,
        "M" => 1 << 20,
        _ => 1 << 30,
    }
}

fn sizes() -> Vec<u64> {
    let mut v = vec![];
    for u in [1u64, 2, 512, 1 << 10, 1 << 20, 1 << 30] {
        for k in [0u64, 1, 2, 3, 5] {
            for d in [-1i64, 0, 1] {
                let s = (k * u) as i64 + d;
                if s >= 0 {
                    v.push(s as u64);
                }
            }
        }
    }
    // sizes whose remainder modulo the unit is a single power of two, and its complement: k*u + 2^e
    // and k*u - 2^e for every e below log2(u) - a remainder with all its low bits clear (a multiple
    // of 64 MiB that is not a multiple of 1 GiB) must still round up
    for u in [512u64, 1 << 10, 1 << 20, 1 << 30] {
        for k in [1u64, 2] {
            let mut p = 1u64;
            while p < u {
                v.push(k * u + p);
                v.push(k * u - p);
                p <<= 1;
            }
        }
    }
    v.sort();
    v.dedup();
    v
}

fn ensure_dir() {
    if std::fs::symlink_metadata("s/.ready2").is_ok() {
        return;
    }
    let _ = std::fs::remove_dir_all("s");
    let mut t = TreeSpec::default();
    t.nodes.push(Node::new("s", Kind::Dir));
    for sz in sizes() {
        let mut n = Node::new(format!("s/z{sz}"), Kind::File);
        n.size = sz;
        t.nodes.push(n);
    }
    // hard-link groups of 2..5 names
    for grp in 2..=5u32 {
        t.nodes.push(Node::new(format!("s/h{grp}_1"), Kind::File));
        for i in 2..=grp {
            t.nodes.push(Node::new(format!("s/h{grp}_{i}"), Kind::Hard(format!("s/h{grp}_1"))));
        }
    }
    for (i, id) in [1u32, 65534, 54321, 2].iter().enumerate() {
        let mut n = Node::new(format!("s/o{i}"), Kind::File);
        n.owner = Some((*id, *id));
        t.nodes.push(n);
    }
    // ages around day and minute boundaries
    let mut idx = 0;
    for period in [86400i64, 60] {
        for k in [0i64, 1, 2, 3, 7, 30, 400] {
            for (ds, dn) in [(0i64, 0u32), (-1, 0), (1, 0), (0, 1), (-1, 999_999_999)] {
                let ts = NOW_S as i64 - k * period + ds;
                let mut n = Node::new(format!("s/t{idx}"), Kind::File);
                n.mtime = Some((ts, dn));
                n.atime = Some((ts - 3 * period, dn)); // atime differs from mtime
                t.nodes.push(n);
                idx += 1;
            }
        }
    }
    // future-dated files (negative age): the measured value is below every N, so only -N may select them
    for (i, ahead) in [43_200i64, 129_600, 90, 1].iter().enumerate() {
        let mut n = Node::new(format!("s/u{i}"), Kind::File);
        n.mtime = Some((NOW_S as i64 + ahead, 0));
        n.atime = Some((NOW_S as i64 + ahead, 500));
        t.nodes.push(n);
    }
    t.nodes.push(Node::new("s/.ready2", Kind::File));
    t.build();
}

fn measured(test: &str, unit: &str, m: &std::fs::Metadata) -> Option<i128> {
    let now = UNIX_EPOCH + Duration::from_secs(NOW_S);
    // a timestamp after 'now' gives a negative age: some value below every operand
    let age = |t: SystemTime, period: u64| Some(now.duration_since(t).map(|d| (d.as_secs() / period) as i128).unwrap_or(-1));
    match test {
        "-size" => {
            let u = unit_bytes(unit);
            Some(m.len().div_ceil(u) as i128)
        }
        "-links" => Some(m.nlink() as i128),
        "-inum" => Some(m.ino() as i128),
        "-uid" => Some(m.uid() as i128),
        "-gid" => Some(m.gid() as i128),
        "-mtime" => age(m.modified().unwrap(), 86400),
        "-atime" => age(m.accessed().unwrap(), 86400),
        "-mmin" => age(m.modified().unwrap(), 60),
        "-amin" => age(m.accessed().unwrap(), 60),
        _ => None,
    }
}

pub fn gen_case(g: &mut Gen) -> Case {
    let test = g.pick(&["-size", "-size", "-size", "-links", "-inum", "-uid", "-gid", "-mtime", "-atime", "-mmin", "-amin"]).to_string();
    let unit = if test == "-size" { g.pick(&["", "c", "w", "b", "k", "M", "G"]).to_string() } else { String::new() };
    // N: around a measured value of a file chosen by index (resolved at check time through `pick`), or special
    let n = match g.weighted(&[10, 2, 1, 1, 1, 4]) {
        0 => {
            // encode "file index + delta" into n via a marker: resolved in check (kept simple: draw from plausible values)
            let base: u64 = match test.as_str() {
                "-size" => {
                    let s = g.pick(&sizes());
                    s.div_ceil(unit_bytes(&unit))
                }
                "-links" => g.below(6),
                "-uid" | "-gid" => g.pick(&[0u64, 1, 2, 65534, 54321]),
                "-mtime" | "-atime" => g.pick(&[0u64, 1, 2, 3, 4, 5, 6, 7, 10, 30, 33, 400, 403]),
                "-mmin" | "-amin" => g.pick(&[0u64, 1, 2, 3, 4, 5, 6, 7, 10, 30, 33, 400, 403, 1440, 4320]),
                _ => u64::MAX - 5, // -inum: replaced by a real inode in check()
            };
            (base as i128 + g.range(-1, 1) as i128).clamp(0, u64::MAX as i128) as u64
        }
        1 => 0,
        2 => (1u64 << 63) - 1 + g.below(3),
        3 => u64::MAX - g.below(2),
        4 => g.u64_any(),
        _ => {
            // 2^e + a small plausible value: operands whose scaling by the unit (or any shift) wraps
            // around 2^64 land back on the measured values
            let e = g.below(64);
            let small = g.pick(&[0u64, 0, 1, 2, 3, 4, 5, 6, 1023, 1024, 1025]);
            let v = (1u128 << e) + small as u128 - if g.chance(1, 4) { 1 } else { 0 };
            v.min(u64::MAX as u128) as u64
        }
    };
    Case { test, n, unit }
}

fn run_sel(ctx: &mut Ctx, test: &str, op: &str) -> Result<Vec<String>, Outcome> {
    let now = UNIX_EPOCH + Duration::from_secs(NOW_S);
    let o = ctx.find_at(&["s", "-mindepth", "1", "-sorted", test, op, "-print"], now);
    if let Some(p) = o.panic {
        return Err(fail(format!("C14:panic:{}", p.split(": ").next().unwrap_or("?")), format!("find s {test} {op}: {p}")));
    }
    if o.status != 0 {
        return Err(fail(format!("C14:operand-rejected:{test}"), format!("find s {test} {op}: exit {} stderr {:?}", o.status, lossy(&o.stderr))));
    }
    Ok(lossy(&o.stdout).lines().map(|s| s.to_string()).collect())
}

pub fn check(ctx: &mut Ctx, c: &Case) -> Outcome {
    ensure_dir();
    let mut n = c.n;
    let mut files: Vec<(String, i128)> = vec![];
    let mut names: Vec<String> = std::fs::read_dir("s").unwrap().flatten().map(|e| e.file_name().to_string_lossy().into_owned()).collect();
    names.sort();
    for nm in &names {
        let p = format!("s/{nm}");
        let m = std::fs::symlink_metadata(&p).unwrap();
        // a timestamp after the injected now gives a negative age, modelled as a value below every operand
        if let Some(v) = measured(&c.test, &c.unit, &m) {
            files.push((p, v));
        }
    }
    if c.test == "-inum" && c.n >= u64::MAX - 6 && c.n < u64::MAX - 3 {
        // around a real inode number
        let pick = files[(c.n % files.len() as u64) as usize].1 as u64;
        n = pick + (c.n % 3) - 1;
    }
    let op = |prefix: &str, n: u64| format!("{prefix}{n}{}", c.unit);
    let eq = match run_sel(ctx, &c.test, &op("", n)) {
        Ok(v) => v,
        Err(f) => return f,
    };
    let gt = match run_sel(ctx, &c.test, &op("+", n)) {
        Ok(v) => v,
        Err(f) => return f,
    };
    let lt = match run_sel(ctx, &c.test, &op("-", n)) {
        Ok(v) => v,
        Err(f) => return f,
    };
    let unit_sig = if c.test == "-size" { format!(":unit={}", if c.unit.is_empty() { "none" } else { &c.unit }) } else { String::new() };
    let monotone_domain: Vec<&String> = files.iter().map(|(p, _)| p).collect();
    for (p, v) in &files {
        let got = (eq.contains(p), gt.contains(p), lt.contains(p));
        let want = (*v == n as i128, *v > n as i128, *v < n as i128);
        if got != want {
            let count = got.0 as u8 + got.1 as u8 + got.2 as u8;
            let kind = if count != 1 { "not-exactly-one-form-true" } else { "wrong-form-true" };
            let rel = if *v < 0 { "negative-age" } else if *v == n as i128 { "value==N" } else if *v > n as i128 { "value>N" } else { "value<N" };
            return fail(
                format!("C14:{kind}:{}{unit_sig}:{rel}", c.test),
                format!("file {p} (measured value {v}, size {} bytes) with N={n}{}\n(N,+N,-N) selected = {got:?}, expected {want:?}", std::fs::symlink_metadata(p).map(|m| m.len()).unwrap_or(0), c.unit),
            );
        }
    }
    // monotonicity in N
    if n < u64::MAX {
        let gt1 = match run_sel(ctx, &c.test, &op("+", n + 1)) {
            Ok(v) => v,
            Err(f) => return f,
        };
        let lt1 = match run_sel(ctx, &c.test, &op("-", n + 1)) {
            Ok(v) => v,
            Err(f) => return f,
        };
        if gt1.iter().any(|p| monotone_domain.contains(&p) && !gt.contains(p)) {
            return fail(format!("C14:+N-not-monotone:{}{unit_sig}", c.test), format!("+{} selects {:?} which +{} does not", n + 1, gt1.iter().filter(|p| !gt.contains(p)).collect::<Vec<_>>(), n));
        }
        if lt.iter().any(|p| monotone_domain.contains(&p) && !lt1.contains(p)) {
            return fail(format!("C14:-N-not-monotone:{}{unit_sig}", c.test), format!("-{} selects {:?} which -{} does not", n, lt.iter().filter(|p| !lt1.contains(p)).collect::<Vec<_>>(), n + 1));
        }
    }
    let near = files.iter().any(|(_, v)| v.abs_diff(n as i128) <= 1);
    Pass::new(near)
        .evals(5 * files.len() as u64)
        .class(match c.test.as_str() {
            "-size" => "size",
            "-links" | "-inum" | "-uid" | "-gid" => "stat-field",
            _ => "age",
        })
        .class_if(n >= (1 << 62), "huge-N")
        .class_if(n == 0, "N=0")
        .class_if(n.is_power_of_two() || (n > 8 && (n - 1).is_power_of_two()) || (n & (n.wrapping_add(1))) == 0, "power-of-two-boundary")
        .sample(json!({"test": c.test, "operands": [op("", n), op("+", n), op("-", n)], "selected": [eq.len(), gt.len(), lt.len()]}))
        .ok()
}

fn run(w: &mut Worker) {
    w.regress::<Case>("operand", check);
    // every (unit, boundary value) pair once, deterministically
    let mut grid = vec![];
    for unit in ["", "c", "w", "b", "k", "M", "G"] {
        let mut ns: Vec<u64> = sizes().iter().map(|s| s.div_ceil(unit_bytes(unit))).collect();
        ns.sort();
        ns.dedup();
        for n in ns {
            for d in [0u64, 1] {
                grid.push(Case { test: "-size".into(), n: n + d, unit: unit.into() });
            }
        }
    }
    w.exhaustive("size-grid", "every unit suffix x every measured value (and +1) of the size ladder", grid.into_iter(), check);
    w.random("operand", w.tier.pick(12_000, 200_000), (8, 16), 200, gen_case, check);
}

fn replay(w: &mut Worker, _sub: &str, v: Value) -> Outcome {
    check(&mut w.ctx, &decode(v))
}
