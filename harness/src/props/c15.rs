//! C15 — time tests: whole elapsed periods, strict -newer, -newerXY uses X and Y.

use super::{decode, PropDef};
use crate::engine::fsx::set_times;
use crate::engine::proc::{lossy, Ctx};
use crate::engine::{fail, Gen, Outcome, Pass, Worker};
use serde::{Deserialize, Serialize};
use serde_json::{json, Value};
use std::os::unix::fs::{MetadataExt, PermissionsExt};
use std::time::{Duration, UNIX_EPOCH};

pub static DEF: PropDef = PropDef {
    id: "C15",
    rule: "age: a regular file whose atime and mtime are set with utimensat at ns precision to different values (ctime read back), 'now' injected through Dependencies::now() as ts + k*period + delta with period in {86400 s, 60 s}, k in 0..400, delta in {-1 ns, 0, +1 ns, +/-1 s, +/-999999999 ns, random}, N in k-2..k+2 with all three prefixes, on each of the six tests -[acm]time/-[acm]min. newer: a reference file and an entry with independent timestamps, entry.X placed at ref.Y + {-1 ns, 0, +1 ns, -1 s, +1 s, far} for all nine XY over a,c,m plus -newer/-anewer/-cnewer (ctime relations produced by the order of the last inode change and by placing the other file's a/m time relative to the read-back ctime). Oracle: model from the statement on the READ-BACK timestamps: floor((now - ts)/period) compared with N; strict entry.X > ref.Y at full resolution. Non-trivial = age within 1 s of a period boundary, or entry.X within 1 s of ref.Y, or X != Y with ref's three timestamps not all on the same side of entry.X. Distinct = distinct case JSON.",
    assumptions: &["ages < 0, -daystart and -newerXt are outside the statement and not asserted", "timestamps are read back after set-up and again after the run (the run must not disturb them)", "equal ctimes (both changes in one kernel tick) occur by coincidence and are counted, not forced"],
    run,
    replay,
    fuzz: None,
};

const BASE_S: i64 = 1_700_000_000;

#[derive(Serialize, Deserialize, Debug, Clone)]
pub struct AgeCase {
    pub mtime: (i64, u32),
    pub atime: (i64, u32),
    /// 'a' | 'c' | 'm'
    pub which: char,
    pub minutes: bool,
    pub k: u64,
    pub delta_ns: i64,
    pub n_rel: i64,
    /// "", "+", "-"
    pub prefix: String,
}

fn gen_ts(g: &mut Gen) -> (i64, u32) {
    let s = BASE_S + g.range(-40_000_000, 40_000_000);
    let ns = match g.below(5) {
        0 => 0,
        1 => 999_999_999,
        2 => 1,
        3 => 500_000_000,
        _ => g.below(1_000_000_000) as u32,
    };
    (s, ns)
}

pub fn gen_age(g: &mut Gen) -> AgeCase {
    AgeCase {
        mtime: gen_ts(g),
        atime: gen_ts(g),
        which: g.pick(&['m', 'a', 'c']),
        minutes: g.bool(),
        k: if g.chance(1, 4) { g.below(4) } else { g.below(400) },
        delta_ns: match g.below(9) {
            0 => -1,
            1 => 0,
            2 => 1,
            3 => -1_000_000_000,
            4 => 1_000_000_000,
            5 => -999_999_999,
            6 => 999_999_999,
            7 => g.range(-3_000_000_000, 3_000_000_000),
            _ => g.range(0, 86_399_999_999_999),
        },
        n_rel: g.range(-2, 2),
        prefix: g.pick(&["", "+", "-"]).to_string(),
    }
}

fn ts_of(m: &std::fs::Metadata, which: char) -> i128 {
    let (s, n) = match which {
        'a' => (m.atime(), m.atime_nsec()),
        'c' => (m.ctime(), m.ctime_nsec()),
        _ => (m.mtime(), m.mtime_nsec()),
    };
    s as i128 * 1_000_000_000 + n as i128
}

pub fn check_age(ctx: &mut Ctx, c: &AgeCase) -> Outcome {
    ctx.fresh_case_dir();
    std::fs::write("c/f", b"x").unwrap();
    set_times("c/f", Some(c.atime), Some(c.mtime));
    let m = std::fs::symlink_metadata("c/f").unwrap();
    let ts = ts_of(&m, c.which);
    let period: i128 = if c.minutes { 60 } else { 86400 } * 1_000_000_000i128;
    let now = ts + c.k as i128 * period + c.delta_ns as i128;
    if now < ts || now < 0 {
        return Pass::discard("negative age (outside the statement)");
    }
    let age = now - ts;
    let periods = (age / period) as i64;
    let n = periods + c.n_rel;
    if n < 0 {
        return Pass::discard("negative N");
    }
    let expect = match c.prefix.as_str() {
        "+" => periods > n,
        "-" => periods < n,
        _ => periods == n,
    };
    let test = format!("-{}{}", c.which, if c.minutes { "min" } else { "time" });
    let op = format!("{}{}", c.prefix, n);
    let now_st = UNIX_EPOCH + Duration::new((now / 1_000_000_000) as u64, (now % 1_000_000_000) as u32);
    let o = ctx.find_at(&["c/f", &test, &op, "-print"], now_st);
    if let Some(p) = o.panic {
        return fail(format!("C15:panic:{}", p.split(": ").next().unwrap_or("?")), format!("find c/f {test} {op}: {p}"));
    }
    let got = o.stdout == b"c/f\n";
    let m2 = std::fs::symlink_metadata("c/f").unwrap();
    if ts_of(&m2, 'a') != ts_of(&m, 'a') || ts_of(&m2, 'm') != ts_of(&m, 'm') || ts_of(&m2, 'c') != ts_of(&m, 'c') {
        return fail("C15:run-disturbed-timestamps", format!("find c/f {test} {op} changed the file's timestamps"));
    }
    let to_boundary = (age % period).min(period - age % period);
    if got != expect || o.status != 0 {
        let frac = if age % period == 0 { "exact-boundary" } else if to_boundary < 1_000_000_000 { "sub-second-from-boundary" } else { "mid-period" };
        return fail(
            format!("C15:{test}:{}:{frac}", if got { "selected-wrongly" } else { "missed" }),
            format!("find c/f {test} {op}  with now - {}time = {} ns = {periods} complete period(s) + {} ns\nexpected selected={expect}, observed selected={got}; exit {} stderr {:?}\natime {:?} mtime {:?} ctime(read back) {}", c.which, age, age % period, o.status, lossy(&o.stderr), c.atime, c.mtime, ts_of(&m, 'c')),
        );
    }
    Pass::new(to_boundary <= 1_000_000_000)
        .class(if c.minutes { "minutes" } else { "days" })
        .class(match c.which {
            'a' => "atime",
            'c' => "ctime",
            _ => "mtime",
        })
        .class_if(age % period == 0, "exact-boundary")
        .class_if(to_boundary > 0 && to_boundary < 1_000_000_000, "sub-second-from-boundary")
        .sample(json!({"cmd": format!("find c/f {test} {op}"), "age_ns": age.to_string(), "periods": periods, "selected": got}))
        .ok()
}

#[derive(Serialize, Deserialize, Debug, Clone)]
pub struct NewerCase {
    pub x: char,
    pub y: char,
    /// 0: -newerXY, 1: short form where one exists (-newer, -anewer, -cnewer)
    pub short_form: bool,
    pub ref_a: (i64, u32),
    pub ref_m: (i64, u32),
    pub ent_a: (i64, u32),
    pub ent_m: (i64, u32),
    /// offset of entry.X relative to ref.Y in ns (applied where it can be controlled)
    pub offset_ns: i64,
    /// for the cc pair: true = the entry's inode is changed last
    pub entry_changed_last: bool,
}

pub fn gen_newer(g: &mut Gen) -> NewerCase {
    NewerCase {
        x: g.pick(&['m', 'a', 'c']),
        y: g.pick(&['m', 'a', 'c']),
        short_form: g.bool(),
        ref_a: gen_ts(g),
        ref_m: gen_ts(g),
        ent_a: gen_ts(g),
        ent_m: gen_ts(g),
        offset_ns: match g.below(8) {
            0 => -1,
            1 => 0,
            2 => 1,
            3 => -1_000_000_000,
            4 => 1_000_000_000,
            5 => g.range(-5_000_000_000, 5_000_000_000),
            6 => 86_400_000_000_000,
            _ => -86_400_000_000_000,
        },
        entry_changed_last: g.bool(),
    }
}

fn split(ns: i128) -> (i64, u32) {
    (ns.div_euclid(1_000_000_000) as i64, ns.rem_euclid(1_000_000_000) as u32)
}

fn touch_inode(p: &str) {
    let m = std::fs::symlink_metadata(p).unwrap().permissions().mode() & 0o7777;
    std::fs::set_permissions(p, std::fs::Permissions::from_mode(m ^ 0o100)).unwrap();
    std::fs::set_permissions(p, std::fs::Permissions::from_mode(m)).unwrap();
}

pub fn check_newer(ctx: &mut Ctx, c: &NewerCase) -> Outcome {
    ctx.fresh_case_dir();
    std::fs::write("c/ref", b"r").unwrap();
    std::fs::write("c/e", b"e").unwrap();
    set_times("c/ref", Some(c.ref_a), Some(c.ref_m));
    set_times("c/e", Some(c.ent_a), Some(c.ent_m));
    // place entry.X at ref.Y + offset where one of the two is settable
    match (c.x, c.y) {
        ('c', 'c') => {
            if c.entry_changed_last {
                touch_inode("c/ref");
                touch_inode("c/e");
            } else {
                touch_inode("c/e");
                touch_inode("c/ref");
            }
        }
        ('c', y) => {
            // entry.ctime is what it is: move ref.Y next to it (changes ref's ctime only)
            let ec = ts_of(&std::fs::symlink_metadata("c/e").unwrap(), 'c');
            let t = split(ec - c.offset_ns as i128);
            if y == 'a' {
                set_times("c/ref", Some(t), None);
            } else {
                set_times("c/ref", None, Some(t));
            }
        }
        (x, y) => {
            let ry = ts_of(&std::fs::symlink_metadata("c/ref").unwrap(), y);
            let t = split(ry + c.offset_ns as i128);
            if x == 'a' {
                set_times("c/e", Some(t), None);
            } else {
                set_times("c/e", None, Some(t));
            }
        }
    }
    let me = std::fs::symlink_metadata("c/e").unwrap();
    let mr = std::fs::symlink_metadata("c/ref").unwrap();
    let ex = ts_of(&me, c.x);
    let ry = ts_of(&mr, c.y);
    let expect = ex > ry;
    let test = match (c.short_form, c.x, c.y) {
        (true, 'm', 'm') => "-newer".to_string(),
        (true, 'a', 'm') => "-anewer".to_string(),
        (true, 'c', 'm') => "-cnewer".to_string(),
        _ => format!("-newer{}{}", c.x, c.y),
    };
    let o = ctx.find(&["c/e", &test, "c/ref", "-print"]);
    if let Some(p) = o.panic {
        return fail(format!("C15:panic:{}", p.split(": ").next().unwrap_or("?")), format!("find c/e {test} c/ref: {p}"));
    }
    let got = o.stdout == b"c/e\n";
    let me2 = std::fs::symlink_metadata("c/e").unwrap();
    if ['a', 'm', 'c'].iter().any(|w| ts_of(&me2, *w) != ts_of(&me, *w)) {
        return fail("C15:run-disturbed-timestamps", format!("find c/e {test} c/ref changed the entry's timestamps"));
    }
    let ref_ts: Vec<i128> = ['a', 'c', 'm'].iter().map(|w| ts_of(&mr, *w)).collect();
    let sides_differ = ref_ts.iter().any(|t| ex > *t) && ref_ts.iter().any(|t| ex <= *t);
    let other_entry_differs = ['a', 'c', 'm'].iter().filter(|w| **w != c.x).any(|w| (ts_of(&me, *w) > ry) != expect);
    if got != expect || o.status != 0 {
        let rel = if ex == ry { "equal" } else if (ex - ry).abs() < 1_000_000_000 { "within-1s" } else { "far" };
        return fail(
            format!("C15:{}:{}:{rel}", if test.len() == 8 { format!("-newer{}{}", c.x, c.y) } else { test.clone() }, if got { "selected-wrongly" } else { "missed" }),
            format!("find c/e {test} c/ref\nentry.{} = {ex} ns, ref.{} = {ry} ns (difference {} ns): expected selected={expect}, observed {got}\nentry a/c/m = {:?}\nref   a/c/m = {:?}\nexit {} stderr {:?}", c.x, c.y, ex - ry, ['a', 'c', 'm'].iter().map(|w| ts_of(&me, *w)).collect::<Vec<_>>(), ref_ts, o.status, lossy(&o.stderr)),
        );
    }
    let near = (ex - ry).abs() <= 1_000_000_000;
    Pass::new(near || (c.x != c.y && sides_differ))
        .class_if(ex == ry, "equal-timestamps")
        .class_if(near && ex != ry, "within-1s")
        .class_if(c.x != c.y, "X-differs-from-Y")
        .class_if(sides_differ, "ref-timestamps-on-both-sides")
        .class_if(other_entry_differs, "other-entry-timestamp-would-answer-differently")
        .class_if(c.x == 'c' || c.y == 'c', "involves-ctime")
        .sample(json!({"cmd": format!("find c/e {test} c/ref"), "entry_minus_ref_ns": (ex - ry).to_string(), "selected": got}))
        .ok()
}

fn run(w: &mut Worker) {
    w.regress::<AgeCase>("age", check_age);
    w.regress::<NewerCase>("newer", check_newer);
    w.random("age", w.tier.pick(120_000, 2_000_000), (16, 32), 400, gen_age, check_age);
    w.random("newer", w.tier.pick(120_000, 2_000_000), (24, 40), 400, gen_newer, check_newer);
}

fn replay(w: &mut Worker, sub: &str, v: Value) -> Outcome {
    match sub {
        "newer" => check_newer(&mut w.ctx, &decode(v)),
        _ => check_age(&mut w.ctx, &decode(v)),
    }
}
