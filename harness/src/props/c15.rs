//! C15 — time tests: whole elapsed periods, strict -newer, -newerXY uses X and Y.

use super::{decode, PropDef};
use crate::engine::fsx::set_times;
use crate::engine::proc::{lossy, Ctx};
use crate::engine::{fail, Gen, Outcome, Pass, Worker};
use serde::{Deserialize, Serialize};
use serde_json::{json, Value};
use std::os::unix::fs::{MetadataExt, PermissionsExt};
use std::time::{Duration, UNIX_EPOCH};

pub static DEF: PropDef = PropDef {
    id: "C15",
    rule: "age: a regular file whose atime and mtime are set with utimensat at ns precision to different values (ctime read back), 'now' injected through Dependencies::now() as ts + k*period + delta with period in {86400 s, 60 s}, k in 0..400, delta in {-1 ns, 0, +1 ns, +/-1 s, +/-999999999 ns, random}, N in k-2..k+2 with all three prefixes, on each of the six tests -[acm]time/-[acm]min. newer: a reference file (in a quarter of the cases a symbolic link, whose own timestamps count in the default follow mode, to a file whose timestamps give the opposite answer) and an entry with independent timestamps, entry.X placed at ref.Y + {-1 ns, 0, +1 ns, -1 s, +1 s, far} for all nine XY over a,c,m plus -newer/-anewer/-cnewer (ctime relations produced by the order of the last inode change and by placing the other file's a/m time relative to the read-back ctime). Oracle: model from the statement on the READ-BACK timestamps: floor((now - ts)/period) compared with N; strict entry.X > ref.Y at full resolution. start-clock (the real binary, the real clock): a file that is k*period - margin old (margin 0.4-0.9 s) when find is spawned, with a command lasting margin + 0.25-0.5 s run by -exec before the time test is first evaluated (on the same entry, or on an earlier starting point), or after it (control); 'now' lies between the spawn and the start of that command (its record's timestamp), so k-1 complete periods are expected; cases in which that upper bound is not before the boundary are discarded. Non-trivial = age within 1 s of a period boundary, or entry.X within 1 s of ref.Y, or X != Y with ref's three timestamps not all on the same side of entry.X. Distinct = distinct case JSON.",
    assumptions: &["ages < 0, -daystart and -newerXt are outside the statement and not asserted", "timestamps are read back after set-up and again after the run (the run must not disturb them)", "equal ctimes (both changes in one kernel tick) occur by coincidence and are counted, not forced", "start-clock: find reads the clock no earlier than it is spawned and, if 'now' is fixed at start-up, no later than the first command it runs is started"],
    run,
    replay,
    fuzz: None,
};

const BASE_S: i64 = 1_700_000_000;

#[derive(Serialize, Deserialize, Debug, Clone)]
pub struct AgeCase {
    pub mtime: (i64, u32),
    pub atime: (i64, u32),
    /// 'a' | 'c' | 'm'
    pub which: char,
    pub minutes: bool,
    pub k: u64,
    pub delta_ns: i64,
    pub n_rel: i64,
    /// "", "+", "-"
    pub prefix: String,
}

fn gen_ts(g: &mut Gen) -> (i64, u32) {
    let s = BASE_S + g.range(-40_000_000, 40_000_000);
    let ns = match g.below(5) {
        0 => 0,
        1 => 999_999_999,
        2 => 1,
        3 => 500_000_000,
        _ => g.below(1_000_000_000) as u32,
    };
    (s, ns)
}

pub fn gen_age(g: &mut Gen) -> AgeCase {
    AgeCase {
        mtime: gen_ts(g),
        atime: gen_ts(g),
        which: g.pick(&['m', 'a', 'c']),
        minutes: g.bool(),
        k: if g.chance(1, 4) { g.below(4) } else { g.below(400) },
        delta_ns: match g.below(9) {
            0 => -1,
            1 => 0,
            2 => 1,
            3 => -1_000_000_000,
            4 => 1_000_000_000,
            5 => -999_999_999,
            6 => 999_999_999,
            7 => g.range(-3_000_000_000, 3_000_000_000),
            _ => g.range(0, 86_399_999_999_999),
        },
        n_rel: g.range(-2, 2),
        prefix: g.pick(&["", "+", "-"]).to_string(),
    }
}

fn ts_of(m: &std::fs::Metadata, which: char) -> i128 {
    let (s, n) = match which {
        'a' => (m.atime(), m.atime_nsec()),
        'c' => (m.ctime(), m.ctime_nsec()),
        _ => (m.mtime(), m.mtime_nsec()),
    };
    s as i128 * 1_000_000_000 + n as i128
}

pub fn check_age(ctx: &mut Ctx, c: &AgeCase) -> Outcome {
    ctx.fresh_case_dir();
    std::fs::write("c/f", b"x").unwrap();
    set_times("c/f", Some(c.atime), Some(c.mtime));
    let m = std::fs::symlink_metadata("c/f").unwrap();
    let ts = ts_of(&m, c.which);
    let period: i128 = if c.minutes { 60 } else { 86400 } * 1_000_000_000i128;
    let now = ts + c.k as i128 * period + c.delta_ns as i128;
    if now < ts || now < 0 {
        return Pass::discard("negative age (outside the statement)");
    }
    let age = now - ts;
    let periods = (age / period) as i64;
    let n = periods + c.n_rel;
    if n < 0 {
        return Pass::discard("negative N");
    }
    let expect = match c.prefix.as_str() {
        "+" => periods > n,
        "-" => periods < n,
        _ => periods == n,
    };
    let test = format!("-{}{}", c.which, if c.minutes { "min" } else { "time" });
    let op = format!("{}{}", c.prefix, n);
    let now_st = UNIX_EPOCH + Duration::new((now / 1_000_000_000) as u64, (now % 1_000_000_000) as u32);
    let o = ctx.find_at(&["c/f", &test, &op, "-print"], now_st);
    if let Some(p) = o.panic {
        return fail(format!("C15:panic:{}", p.split(": ").next().unwrap_or("?")), format!("find c/f {test} {op}: {p}"));
    }
    let got = o.stdout == b"c/f\n";
    let m2 = std::fs::symlink_metadata("c/f").unwrap();
    if ts_of(&m2, 'a') != ts_of(&m, 'a') || ts_of(&m2, 'm') != ts_of(&m, 'm') || ts_of(&m2, 'c') != ts_of(&m, 'c') {
        return fail("C15:run-disturbed-timestamps", format!("find c/f {test} {op} changed the file's timestamps"));
    }
    let to_boundary = (age % period).min(period - age % period);
    if got != expect || o.status != 0 {
        let frac = if age % period == 0 { "exact-boundary" } else if to_boundary < 1_000_000_000 { "sub-second-from-boundary" } else { "mid-period" };
        return fail(
            format!("C15:{test}:{}:{frac}", if got { "selected-wrongly" } else { "missed" }),
            format!("find c/f {test} {op}  with now - {}time = {} ns = {periods} complete period(s) + {} ns\nexpected selected={expect}, observed selected={got}; exit {} stderr {:?}\natime {:?} mtime {:?} ctime(read back) {}", c.which, age, age % period, o.status, lossy(&o.stderr), c.atime, c.mtime, ts_of(&m, 'c')),
        );
    }
    Pass::new(to_boundary <= 1_000_000_000)
        .class(if c.minutes { "minutes" } else { "days" })
        .class(match c.which {
            'a' => "atime",
            'c' => "ctime",
            _ => "mtime",
        })
        .class_if(age % period == 0, "exact-boundary")
        .class_if(to_boundary > 0 && to_boundary < 1_000_000_000, "sub-second-from-boundary")
        .sample(json!({"cmd": format!("find c/f {test} {op}"), "age_ns": age.to_string(), "periods": periods, "selected": got}))
        .ok()
}

#[derive(Serialize, Deserialize, Debug, Clone)]
pub struct NewerCase {
    pub x: char,
    pub y: char,
    /// 0: -newerXY, 1: short form where one exists (-newer, -anewer, -cnewer)
    pub short_form: bool,
    pub ref_a: (i64, u32),
    pub ref_m: (i64, u32),
    pub ent_a: (i64, u32),
    pub ent_m: (i64, u32),
    /// offset of entry.X relative to ref.Y in ns (applied where it can be controlled)
    pub offset_ns: i64,
    /// for the cc pair: true = the entry's inode is changed last
    pub entry_changed_last: bool,
    /// the reference is a symbolic link (default follow mode: its own timestamps count, as for
    /// -newer); the file it points to has timestamps that would give the opposite answer
    #[serde(default)]
    pub ref_link: bool,
}

pub fn gen_newer(g: &mut Gen) -> NewerCase {
    NewerCase {
        x: g.pick(&['m', 'a', 'c']),
        y: g.pick(&['m', 'a', 'c']),
        short_form: g.bool(),
        ref_a: gen_ts(g),
        ref_m: gen_ts(g),
        ent_a: gen_ts(g),
        ent_m: gen_ts(g),
        offset_ns: match g.below(8) {
            0 => -1,
            1 => 0,
            2 => 1,
            3 => -1_000_000_000,
            4 => 1_000_000_000,
            5 => g.range(-5_000_000_000, 5_000_000_000),
            6 => 86_400_000_000_000,
            _ => -86_400_000_000_000,
        },
        entry_changed_last: g.bool(),
        ref_link: g.chance(1, 4),
    }
}

fn split(ns: i128) -> (i64, u32) {
    (ns.div_euclid(1_000_000_000) as i64, ns.rem_euclid(1_000_000_000) as u32)
}

fn touch_inode(p: &str) {
    let m = std::fs::symlink_metadata(p).unwrap().permissions().mode() & 0o7777;
    std::fs::set_permissions(p, std::fs::Permissions::from_mode(m ^ 0o100)).unwrap();
    std::fs::set_permissions(p, std::fs::Permissions::from_mode(m)).unwrap();
}

pub fn check_newer(ctx: &mut Ctx, c: &NewerCase) -> Outcome {
    ctx.fresh_case_dir();
    if c.ref_link {
        std::fs::write("c/reft", b"r").unwrap();
        std::os::unix::fs::symlink("reft", "c/ref").unwrap();
    } else {
        std::fs::write("c/ref", b"r").unwrap();
    }
    std::fs::write("c/e", b"e").unwrap();
    set_times("c/ref", Some(c.ref_a), Some(c.ref_m));
    set_times("c/e", Some(c.ent_a), Some(c.ent_m));
    // place entry.X at ref.Y + offset where one of the two is settable
    match (c.x, c.y) {
        ('c', 'c') => {
            if c.entry_changed_last {
                touch_inode("c/ref");
                touch_inode("c/e");
            } else {
                touch_inode("c/e");
                touch_inode("c/ref");
            }
        }
        ('c', y) => {
            // entry.ctime is what it is: move ref.Y next to it (changes ref's ctime only)
            let ec = ts_of(&std::fs::symlink_metadata("c/e").unwrap(), 'c');
            let t = split(ec - c.offset_ns as i128);
            if y == 'a' {
                set_times("c/ref", Some(t), None);
            } else {
                set_times("c/ref", None, Some(t));
            }
        }
        (x, y) => {
            let ry = ts_of(&std::fs::symlink_metadata("c/ref").unwrap(), y);
            let t = split(ry + c.offset_ns as i128);
            if x == 'a' {
                set_times("c/e", Some(t), None);
            } else {
                set_times("c/e", None, Some(t));
            }
        }
    }
    let me = std::fs::symlink_metadata("c/e").unwrap();
    let mr = std::fs::symlink_metadata("c/ref").unwrap();
    let ex = ts_of(&me, c.x);
    let ry = ts_of(&mr, c.y);
    let expect = ex > ry;
    if c.ref_link {
        // the link's target answers the other way round (where its Y can be set)
        let t = split(if expect { ex + 86_400_000_000_000 } else { ex - 86_400_000_000_000 });
        set_times("c/reft", Some(t), Some(t));
    }
    let test = match (c.short_form, c.x, c.y) {
        (true, 'm', 'm') => "-newer".to_string(),
        (true, 'a', 'm') => "-anewer".to_string(),
        (true, 'c', 'm') => "-cnewer".to_string(),
        _ => format!("-newer{}{}", c.x, c.y),
    };
    let o = ctx.find(&["c/e", &test, "c/ref", "-print"]);
    if let Some(p) = o.panic {
        return fail(format!("C15:panic:{}", p.split(": ").next().unwrap_or("?")), format!("find c/e {test} c/ref: {p}"));
    }
    let got = o.stdout == b"c/e\n";
    let me2 = std::fs::symlink_metadata("c/e").unwrap();
    if ['a', 'm', 'c'].iter().any(|w| ts_of(&me2, *w) != ts_of(&me, *w)) {
        return fail("C15:run-disturbed-timestamps", format!("find c/e {test} c/ref changed the entry's timestamps"));
    }
    let ref_ts: Vec<i128> = ['a', 'c', 'm'].iter().map(|w| ts_of(&mr, *w)).collect();
    let sides_differ = ref_ts.iter().any(|t| ex > *t) && ref_ts.iter().any(|t| ex <= *t);
    let other_entry_differs = ['a', 'c', 'm'].iter().filter(|w| **w != c.x).any(|w| (ts_of(&me, *w) > ry) != expect);
    if got != expect || o.status != 0 {
        let rel = if ex == ry { "equal" } else if (ex - ry).abs() < 1_000_000_000 { "within-1s" } else { "far" };
        return fail(
            format!("C15:{}:{}:{rel}{}", if test.len() == 8 { format!("-newer{}{}", c.x, c.y) } else { test.clone() }, if got { "selected-wrongly" } else { "missed" }, if c.ref_link { ":reference-is-a-symbolic-link" } else { "" }),
            format!("find c/e {test} c/ref\nentry.{} = {ex} ns, ref.{} = {ry} ns (difference {} ns): expected selected={expect}, observed {got}\nentry a/c/m = {:?}\nref   a/c/m = {:?}\nexit {} stderr {:?}", c.x, c.y, ex - ry, ['a', 'c', 'm'].iter().map(|w| ts_of(&me, *w)).collect::<Vec<_>>(), ref_ts, o.status, lossy(&o.stderr)),
        );
    }
    let near = (ex - ry).abs() <= 1_000_000_000;
    Pass::new(near || (c.x != c.y && sides_differ))
        .class_if(ex == ry, "equal-timestamps")
        .class_if(near && ex != ry, "within-1s")
        .class_if(c.x != c.y, "X-differs-from-Y")
        .class_if(sides_differ, "ref-timestamps-on-both-sides")
        .class_if(other_entry_differs, "other-entry-timestamp-would-answer-differently")
        .class_if(c.x == 'c' || c.y == 'c', "involves-ctime")
        .class_if(c.ref_link, "reference-is-a-symbolic-link")
        .sample(json!({"cmd": format!("find c/e {test} c/ref"), "entry_minus_ref_ns": (ex - ry).to_string(), "selected": got}))
        .ok()
}

/// "With 'now' fixed when find starts": the real binary with the real clock.  The file is
/// `k*period - margin` old when find is spawned and a command that lasts longer than `margin` runs
/// before the time test is first evaluated, so a clock read later than start-up sees one period more.
#[derive(Serialize, Deserialize, Debug, Clone)]
pub struct ClockCase {
    /// 'a' | 'm'
    pub which: char,
    pub minutes: bool,
    pub k: u64,
    pub margin_ms: u32,
    pub extra_ms: u32,
    /// 0: `f -exec SLOW ; TEST -print`; 1: `g f ( -name g -exec SLOW ; ) -o ( TEST -print )`;
    /// 2: `f TEST -print -exec SLOW ;` (control: nothing slow before the test)
    pub shape: u8,
    pub n_rel: i64,
    pub prefix: String,
}

pub fn gen_clock(g: &mut Gen) -> ClockCase {
    ClockCase {
        which: g.pick(&['m', 'a']),
        minutes: g.bool(),
        k: g.usize_in(1, 4) as u64,
        margin_ms: g.range(400, 900) as u32,
        extra_ms: g.range(250, 500) as u32,
        shape: g.weighted(&[4, 4, 1]) as u8,
        n_rel: g.range(-1, 1),
        prefix: g.pick(&["", "+", "-"]).to_string(),
    }
}

pub fn check_clock(ctx: &mut Ctx, c: &ClockCase) -> Outcome {
    use crate::engine::proc::{find_bin, rec_bin, BinOpts};
    use std::ffi::OsString;
    ctx.fresh_case_dir();
    std::fs::write("c/f", b"x").unwrap();
    std::fs::write("c/g", b"x").unwrap();
    let period: i128 = if c.minutes { 60 } else { 86400 } * 1_000_000_000i128;
    let ns_now = || std::time::SystemTime::now().duration_since(UNIX_EPOCH).unwrap().as_nanos() as i128;
    let t0 = ns_now();
    let ts = t0 - c.k as i128 * period + c.margin_ms as i128 * 1_000_000;
    set_times("c/f", Some(split(ts)), Some(split(ts)));
    let boundary = ts + c.k as i128 * period; // from this instant on the file is k periods old
    let periods = c.k as i64 - 1;
    let n = periods + c.n_rel;
    if n < 0 {
        return Pass::discard("negative N");
    }
    let expect = match c.prefix.as_str() {
        "+" => periods > n,
        "-" => periods < n,
        _ => periods == n,
    };
    let test = format!("-{}{}", c.which, if c.minutes { "min" } else { "time" });
    let op = format!("{}{}", c.prefix, n);
    let rec = rec_bin().to_string_lossy().into_owned();
    let args: Vec<String> = match c.shape {
        0 => vec!["c/f".into(), "-exec".into(), rec, ";".into(), test.clone(), op.clone(), "-print".into()],
        1 => vec!["c/g".into(), "c/f".into(), "(".into(), "-name".into(), "g".into(), "-exec".into(), rec, ";".into(), ")".into(), "-o".into(), "(".into(), test.clone(), op.clone(), "-print".into(), ")".into()],
        _ => vec!["c/f".into(), test.clone(), op.clone(), "-print".into(), "-exec".into(), rec, ";".into()],
    };
    let log = ctx.root.join("rec.log");
    let _ = std::fs::remove_file(&log);
    let a: Vec<OsString> = args.iter().map(OsString::from).collect();
    let sleep_ms = c.margin_ms + c.extra_ms;
    let o = ctx.run_bin(&find_bin(), &a, &BinOpts { env: vec![("VERIF_REC_LOG".into(), log.clone().into_os_string()), ("VERIF_REC_SLEEP_MS".into(), sleep_ms.to_string().into())], ..Default::default() });
    let t_end = ns_now();
    let shown = args.iter().map(|x| if x.ends_with("/rec") { "SLOW".to_string() } else { x.clone() }).collect::<Vec<_>>().join(" ");
    if !o.ordinary() || o.code != Some(0) {
        return fail("C15:start-clock:abnormal-termination", format!("find {shown}\nexit {:?} signal {:?} stderr {:?}", o.code, o.signal, lossy(&o.stderr)));
    }
    // find was started no later than the slow command was (its record is written before it sleeps);
    // in the control shape no later than it ended
    let started_by = if c.shape == 2 {
        t_end - sleep_ms as i128 * 1_000_000
    } else {
        match std::fs::metadata(&log) {
            Ok(m) => ts_of(&m, 'm') + 20_000_000, // the file system's clock may lag by a tick
            Err(_) => return fail("C15:start-clock:slow-command-not-run", format!("find {shown}: the command was not run")),
        }
    };
    if started_by + 30_000_000 >= boundary {
        return Pass::discard("find may have started after the period boundary (machine too slow for this case)");
    }
    let got = o.stdout == b"c/f\n";
    if got != expect {
        return fail(
            format!("C15:start-clock:{test}:{}:{}", if got { "selected-wrongly" } else { "missed" }, ["slow-action-before-test", "slow-action-on-earlier-starting-point", "control"][c.shape as usize]),
            format!("find {shown}   (SLOW lasts {sleep_ms} ms)\nthe file's {}time was set to (spawn time - {} period(s) + {} ms); find was started at most {} ms after that, i.e. with {periods} complete period(s) elapsed\nexpected selected={expect}, observed selected={got}; stdout {:?} stderr {:?}", c.which, c.k, c.margin_ms, (started_by - t0) / 1_000_000, lossy(&o.stdout), lossy(&o.stderr)),
        );
    }
    Pass::new(c.shape != 2)
        .class("real-clock")
        .class(["slow-action-before-test", "slow-action-on-earlier-starting-point", "control"][c.shape as usize])
        .sample(json!({"cmd": format!("find {shown}"), "slow_ms": sleep_ms, "margin_ms": c.margin_ms, "selected": got}))
        .ok()
}

fn run(w: &mut Worker) {
    w.regress::<AgeCase>("age", check_age);
    w.regress::<NewerCase>("newer", check_newer);
    w.random("age", w.tier.pick(120_000, 2_000_000), (16, 32), 400, gen_age, check_age);
    w.random("newer", w.tier.pick(120_000, 2_000_000), (24, 40), 400, gen_newer, check_newer);
    w.regress::<ClockCase>("start-clock", check_clock);
    w.random("start-clock", w.tier.pick(96, 960), (12, 24), 12, gen_clock, check_clock);
}

fn replay(w: &mut Worker, sub: &str, v: Value) -> Outcome {
    match sub {
        "newer" => check_newer(&mut w.ctx, &decode(v)),
        "start-clock" => check_clock(&mut w.ctx, &decode(v)),
        _ => check_age(&mut w.ctx, &decode(v)),
    }
}
