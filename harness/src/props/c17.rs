//! C17 — -regex/-iregex match iff the whole path is in the pattern's language.

use super::{decode, PropDef};
use crate::engine::proc::{lossy, Ctx};
use crate::engine::{fail, Gen, Outcome, Pass, Worker};
use findutils::find::matchers::verif_hooks::{regex_match_error, regex_match_many};
use serde::{Deserialize, Serialize};
use serde_json::{json, Value};
use std::collections::BTreeSet;

pub static DEF: PropDef = PropDef {
    id: "C17",
    rule: "regex ASTs (literal a/b/c/'.'/'+'/'?'/newline (the '+' and '?' ordinary in the basic syntaxes, written [+] [?] where they are operators), any-char '.', positive/negative bracket sets with ranges, concatenation, alternation, grouping, '*', '+', '?', intervals {m}, {m,}, {m,n} with n <= 3) of depth <= 5, rendered into each supported syntax using only the constructs GNU find documents for it (emacs: \\( \\) \\| * + ?; posix-basic / ed / sed / grep: \\( \\) \\| * \\+ \\? \\{m,n\\}; posix-extended: ( ) | * + ? {m,n}); the literals ( ) | (ordinary outside posix-extended, backslashed there - and an unmatched ')' also bare there); in a fifth of the cases the pattern begins (after the starting-point prefix) with a group holding a word and a back-reference to it, so that its language is W W L(re); for half of the ASTs that are an alternation at the top, that alternation is written at the top of the pattern with the starting-point prefix inside each alternative (r/A|r/B rather than r/(A|B)); in a third of the cases the whole pattern between anchors that change nothing about its language (^ or \\` in front, $ or \\' or a group and $ behind), alternation branches also rendered in reversed order; subjects: strings generated FROM the AST (members), their proper prefixes and one-character extensions (the prefix/substring trap), one-character edits, random strings over the same alphabet, and (where the pattern has no '.' or negated set, the only constructs that could consume it) members followed or preceded by a newline and further text, all embedded as paths r/<subject> with the pattern prefixed by the literal r/. Oracle: an independent set-of-end-positions matcher over the AST deciding membership of the ENTIRE path (ASCII case folding for -iregex). tier A through the verif-hooks entry point: exhaustive over every AST of <= 4 (thorough 5) nodes on {a, b, .} x every subject of <= 4 symbols over {a, b} x every syntax x both case modes, then random; tier B end to end: find r [-regextype T] -regex|-iregex P -print0 on a directory whose files are named by the subjects; positional -regextype: the option placed before a parenthesised group, inside an earlier group, twice with different types. Sub-run brackets: r/x[...]y with members drawn from ] \\ 1 2 ( ) | * + ? { } $ . ^ - a b A (']' first, '-' last, '^' not first; negated or not; six syntaxes) against r/x<c>y for every such character c: in the language iff (c is a member) != negated. Non-trivial = the AST contains an alternation or a counted repetition (+, ?, interval), and the subject set contains a member, a non-member, and a proper prefix of a member that is itself a member of one alternative or a non-member. Distinct = distinct case JSON.",
    assumptions: &[
        "back-references other than the leading group-and-reference, anchors inside patterns (anchors around the whole pattern are generated), POSIX classes, case folding beyond ASCII are not generated; newlines in paths only for patterns without . and negated sets",
        "only constructs GNU find documents for each syntax are rendered (emacs without intervals)",
        "nested repetition is always rendered with an explicit group",
        "random patterns nest at most two unbounded repetitions and never repeat an operand that can match the empty string (patterns on which a backtracking engine hits its retry limit are outside this check; the exhaustive sub-run does contain small ones such as (a*)*)",
    ],
    run,
    replay,
    fuzz: Some(fuzz_one),
};

#[derive(Serialize, Deserialize, Debug, Clone, PartialEq, Eq)]
pub enum Re {
    Lit(char),
    Any,
    /// (negated, members as inclusive ranges)
    Set(bool, Vec<(char, char)>),
    Cat(Vec<Re>),
    Alt(Vec<Re>),
    Star(Box<Re>),
    Plus(Box<Re>),
    Opt(Box<Re>),
    /// {m,n}; n = None: {m,}; Some(m) == n: {m}
    Rep(Box<Re>, u8, Option<u8>),
}

pub const SYNTAXES: &[&str] = &["emacs", "posix-basic", "grep", "posix-extended", "ed", "sed"];

fn family(syntax: &str) -> u8 {
    match syntax {
        "emacs" => 0,
        "posix-basic" | "ed" | "sed" => 1,
        "grep" => 2,
        _ => 3,
    }
}

impl Re {
    /// some construct could consume a newline ('.' and negated sets: whether they do differs between
    /// the syntaxes and is not something the statement settles)
    fn may_match_newline(&self) -> bool {
        match self {
            Re::Any | Re::Set(true, _) => true,
            Re::Lit(_) | Re::Set(false, _) => false,
            Re::Cat(v) | Re::Alt(v) => v.iter().any(|x| x.may_match_newline()),
            Re::Star(x) | Re::Plus(x) | Re::Opt(x) | Re::Rep(x, _, _) => x.may_match_newline(),
        }
    }
    fn uses_interval(&self) -> bool {
        match self {
            Re::Rep(..) => true,
            Re::Cat(v) | Re::Alt(v) => v.iter().any(|x| x.uses_interval()),
            Re::Star(x) | Re::Plus(x) | Re::Opt(x) => x.uses_interval(),
            _ => false,
        }
    }
    fn has_alt(&self) -> bool {
        match self {
            Re::Alt(_) => true,
            Re::Cat(v) => v.iter().any(|x| x.has_alt()),
            Re::Star(x) | Re::Plus(x) | Re::Opt(x) | Re::Rep(x, _, _) => x.has_alt(),
            _ => false,
        }
    }
    fn has_counted(&self) -> bool {
        match self {
            Re::Plus(_) | Re::Opt(_) | Re::Rep(..) => true,
            Re::Cat(v) | Re::Alt(v) => v.iter().any(|x| x.has_counted()),
            Re::Star(x) => x.has_counted(),
            _ => false,
        }
    }
    /// can this AST be written in the syntax with documented constructs only?
    pub fn expressible(&self, syntax: &str) -> bool {
        match family(syntax) {
            0 => !self.uses_interval(),
            _ => true,
        }
    }
    fn nodes(&self) -> usize {
        match self {
            Re::Cat(v) | Re::Alt(v) => 1 + v.iter().map(|x| x.nodes()).sum::<usize>(),
            Re::Star(x) | Re::Plus(x) | Re::Opt(x) | Re::Rep(x, _, _) => 1 + x.nodes(),
            _ => 1,
        }
    }
}

/// render; `rev_alt`: write alternation branches in reversed order
pub fn render(re: &Re, syntax: &str, rev_alt: bool) -> String {
    let fam = family(syntax);
    let (open, close, bar) = if fam == 3 { ("(", ")", "|") } else { ("\\(", "\\)", "\\|") };
    fn lit(c: char, fam: u8) -> String {
        match c {
            // '+' and '?' are ordinary characters in the basic syntaxes (posix-basic/ed/sed, grep)
            // and operators in emacs and posix-extended, where a one-member bracket expression
            // spells the literal unambiguously
            '+' | '?' => {
                if fam == 1 || fam == 2 {
                    c.to_string()
                } else {
                    format!("[{c}]")
                }
            }
            // ordinary characters outside posix-extended, where they are written with a backslash
            '(' | ')' | '|' => {
                if fam == 3 {
                    format!("\\{c}")
                } else {
                    c.to_string()
                }
            }
            '.' | '*' | '[' | ']' | '\\' | '^' | '$' | '{' | '}' => {
                // only '.' is ever generated from this list; a backslash-escaped period is a literal period everywhere
                format!("\\{c}")
            }
            _ => c.to_string(),
        }
    }
    // precedence: 0 alt, 1 cat, 2 postfix operand (atom)
    fn go(re: &Re, level: u8, fam: u8, open: &str, close: &str, bar: &str, rev_alt: bool) -> String {
        let wrap = |s: String| format!("{open}{s}{close}");
        match re {
            Re::Lit(c) => lit(*c, fam),
            Re::Any => ".".into(),
            Re::Set(neg, ranges) => {
                let mut s = String::from("[");
                if *neg {
                    s.push('^');
                }
                for (a, b) in ranges {
                    if a == b {
                        s.push(*a);
                    } else {
                        s.push(*a);
                        s.push('-');
                        s.push(*b);
                    }
                }
                s.push(']');
                s
            }
            Re::Cat(v) => {
                let s: String = v.iter().map(|x| go(x, 1, fam, open, close, bar, rev_alt)).collect();
                if level > 1 {
                    wrap(s)
                } else {
                    s
                }
            }
            Re::Alt(v) => {
                let mut parts: Vec<String> = v.iter().map(|x| go(x, 1, fam, open, close, bar, rev_alt)).collect();
                if rev_alt {
                    parts.reverse();
                }
                let s = parts.join(bar);
                if level > 0 {
                    wrap(s)
                } else {
                    s
                }
            }
            Re::Star(x) | Re::Plus(x) | Re::Opt(x) | Re::Rep(x, _, _) => {
                // operand: an atom; a postfix expression as operand is grouped explicitly
                let inner = match **x {
                    Re::Lit(_) | Re::Any | Re::Set(..) => go(x, 2, fam, open, close, bar, rev_alt),
                    Re::Cat(_) | Re::Alt(_) => go(x, 2, fam, open, close, bar, rev_alt),
                    _ => wrap(go(x, 0, fam, open, close, bar, rev_alt)),
                };
                let op = match re {
                    Re::Star(_) => "*".to_string(),
                    Re::Plus(_) => if fam == 1 || fam == 2 { "\\+".into() } else { "+".into() },
                    Re::Opt(_) => if fam == 1 || fam == 2 { "\\?".into() } else { "?".into() },
                    Re::Rep(_, m, n) => {
                        let body = match n {
                            None => format!("{m},"),
                            Some(n) if n == m => format!("{m}"),
                            Some(n) => format!("{m},{n}"),
                        };
                        if fam == 3 { format!("{{{body}}}") } else { format!("\\{{{body}\\}}") }
                    }
                    _ => unreachable!(),
                };
                let s = format!("{inner}{op}");
                // a postfix expression is fine inside a concatenation and as an alternative
                s
            }
        }
    }
    go(re, 0, fam, open, close, bar, rev_alt)
}

// ---------------------------------------------------------------------------
// oracle: set of end positions
// ---------------------------------------------------------------------------

fn fold(c: char, icase: bool) -> char {
    if icase {
        c.to_ascii_lowercase()
    } else {
        c
    }
}

fn ends(re: &Re, s: &[char], start: usize, icase: bool) -> BTreeSet<usize> {
    let mut out = BTreeSet::new();
    match re {
        Re::Lit(c) => {
            if start < s.len() && fold(s[start], icase) == fold(*c, icase) {
                out.insert(start + 1);
            }
        }
        Re::Any => {
            if start < s.len() && s[start] != '\n' {
                out.insert(start + 1);
            }
        }
        Re::Set(neg, ranges) => {
            if start < s.len() {
                let ch = s[start];
                let inside = ranges.iter().any(|(a, b)| (*a..=*b).contains(&ch) || (icase && ((*a..=*b).contains(&ch.to_ascii_lowercase()) || (*a..=*b).contains(&ch.to_ascii_uppercase()))));
                if inside != *neg {
                    out.insert(start + 1);
                }
            }
        }
        Re::Cat(v) => {
            let mut cur: BTreeSet<usize> = [start].into();
            for x in v {
                let mut next = BTreeSet::new();
                for p in &cur {
                    next.extend(ends(x, s, *p, icase));
                }
                cur = next;
                if cur.is_empty() {
                    break;
                }
            }
            out = cur;
        }
        Re::Alt(v) => {
            for x in v {
                out.extend(ends(x, s, start, icase));
            }
        }
        Re::Star(x) => out = repeat(x, s, start, icase, 0, None),
        Re::Plus(x) => out = repeat(x, s, start, icase, 1, None),
        Re::Opt(x) => out = repeat(x, s, start, icase, 0, Some(1)),
        Re::Rep(x, m, n) => out = repeat(x, s, start, icase, *m as usize, n.map(|n| n as usize)),
    }
    out
}

fn repeat(x: &Re, s: &[char], start: usize, icase: bool, min: usize, max: Option<usize>) -> BTreeSet<usize> {
    let mut result = BTreeSet::new();
    let mut cur: BTreeSet<usize> = [start].into();
    let mut count = 0usize;
    let mut seen_after_min: BTreeSet<usize> = BTreeSet::new();
    loop {
        if count >= min {
            let before = result.len();
            result.extend(cur.iter().copied());
            if result.len() == before && count > min {
                // nothing new: further iterations cannot add positions
                if cur.iter().all(|p| seen_after_min.contains(p)) {
                    break;
                }
            }
            seen_after_min.extend(cur.iter().copied());
        }
        if let Some(m) = max {
            if count >= m {
                break;
            }
        }
        let mut next = BTreeSet::new();
        for p in &cur {
            next.extend(ends(x, s, *p, icase));
        }
        count += 1;
        if next.is_empty() {
            break;
        }
        // an iteration that consumes nothing adds nothing new beyond the minimum
        if count > min + s.len() + 2 {
            break;
        }
        cur = next;
    }
    result
}

pub fn member(re: &Re, subject: &str, icase: bool) -> bool {
    let s: Vec<char> = subject.chars().collect();
    ends(re, &s, 0, icase).contains(&s.len())
}

// ---------------------------------------------------------------------------
// generators
// ---------------------------------------------------------------------------

fn gen_atom(g: &mut Gen) -> Re {
    match g.weighted(&[8, 2, 3]) {
        0 => Re::Lit(g.pick(&['a', 'b', 'c', 'a', 'b', '.', 'A', '+', '?', 'a', 'b', 'c', 'a', 'b', '.', 'A', '+', '?', '\n', ')', '(', '|', ')'])),
        1 => Re::Any,
        _ => {
            let neg = g.chance(1, 3);
            let ranges = match g.below(5) {
                0 => vec![('a', 'b')],
                1 => vec![('a', 'a'), ('c', 'c')],
                2 => vec![('a', 'c')],
                3 => vec![('b', 'c'), ('.', '.')],
                _ => vec![('a', 'a')],
            };
            Re::Set(neg, ranges)
        }
    }
}

/// `unbounded`: number of enclosing unbounded repetitions (nesting three of them makes a
/// backtracking matcher exponential on short inputs; the engine then gives up, which is not what
/// this property is about)
fn gen_re_in(g: &mut Gen, depth: usize, unbounded: usize) -> Re {
    if depth == 0 || g.chance(1, 4) {
        return gen_atom(g);
    }
    let rep_w = if unbounded >= 2 { 0 } else { 1 };
    match g.weighted(&[5, 4, 3 * rep_w, 2 * rep_w, 2, 2 * rep_w]) {
        0 => Re::Cat(g.vec_of(2, 3, |g| gen_re_in(g, depth - 1, unbounded))),
        1 => {
            // alternatives where one is a prefix of another are the interesting ones
            let a = gen_re_in(g, depth - 1, unbounded);
            let b = if g.chance(1, 2) { Re::Cat(vec![a.clone(), gen_re_in(g, depth - 1, unbounded)]) } else { gen_re_in(g, depth - 1, unbounded) };
            if g.bool() {
                Re::Alt(vec![a, b])
            } else {
                Re::Alt(vec![b, a])
            }
        }
        2 => Re::Star(Box::new(loop_body(g, depth - 1, unbounded + 1))),
        3 => Re::Plus(Box::new(loop_body(g, depth - 1, unbounded + 1))),
        4 => Re::Opt(Box::new(gen_re_in(g, depth - 1, unbounded))),
        _ => {
            let m = g.below(3) as u8;
            let n = match g.below(3) {
                0 => None,
                1 => Some(m),
                _ => Some(m + g.below(2) as u8 + if m == 0 { 1 } else { 0 }),
            };
            let n = match n {
                Some(0) => Some(1),
                x => x,
            };
            Re::Rep(Box::new(loop_body(g, depth - 1, unbounded + 1)), m.min(n.unwrap_or(3)), n)
        }
    }
}

fn nullable(re: &Re) -> bool {
    match re {
        Re::Lit(_) | Re::Any | Re::Set(..) => false,
        Re::Cat(v) => v.iter().all(nullable),
        Re::Alt(v) => v.iter().any(nullable),
        Re::Star(_) | Re::Opt(_) => true,
        Re::Plus(x) => nullable(x),
        Re::Rep(x, m, _) => *m == 0 || nullable(x),
    }
}

/// operand of an unbounded repetition: never nullable (a loop over something that can match the
/// empty string is the classic way to make a backtracking matcher give up)
fn loop_body(g: &mut Gen, depth: usize, unbounded: usize) -> Re {
    let x = gen_re_in(g, depth, unbounded);
    if nullable(&x) {
        Re::Cat(vec![gen_atom(g), x])
    } else {
        x
    }
}

fn gen_re(g: &mut Gen, depth: usize) -> Re {
    gen_re_in(g, depth, 0)
}

/// a random member of the language (bounded), or None
fn sample_member(re: &Re, g: &mut Gen, budget: &mut usize) -> Option<String> {
    if *budget == 0 {
        return None;
    }
    *budget -= 1;
    Some(match re {
        Re::Lit(c) => c.to_string(),
        Re::Any => g.pick(&["a", "b", "c", "x", "."]).to_string(),
        Re::Set(neg, ranges) => {
            let cands: Vec<char> = "abc.xAB+".chars().filter(|ch| ranges.iter().any(|(a, b)| (*a..=*b).contains(ch)) != *neg).collect();
            if cands.is_empty() {
                return None;
            }
            g.pick(&cands).to_string()
        }
        Re::Cat(v) => {
            let mut s = String::new();
            for x in v {
                s.push_str(&sample_member(x, g, budget)?);
            }
            s
        }
        Re::Alt(v) => {
            let i = g.below(v.len() as u64) as usize;
            sample_member(&v[i], g, budget)?
        }
        Re::Star(x) => {
            let k = g.below(3);
            let mut s = String::new();
            for _ in 0..k {
                s.push_str(&sample_member(x, g, budget)?);
            }
            s
        }
        Re::Plus(x) => {
            let k = 1 + g.below(2);
            let mut s = String::new();
            for _ in 0..k {
                s.push_str(&sample_member(x, g, budget)?);
            }
            s
        }
        Re::Opt(x) => {
            if g.bool() {
                sample_member(x, g, budget)?
            } else {
                String::new()
            }
        }
        Re::Rep(x, m, n) => {
            let hi = n.unwrap_or(m + 1);
            let k = *m as u64 + g.below((hi - m + 1) as u64);
            let mut s = String::new();
            for _ in 0..k {
                s.push_str(&sample_member(x, g, budget)?);
            }
            s
        }
    })
}

#[derive(Serialize, Deserialize, Debug, Clone)]
pub struct Case {
    pub re: Re,
    pub subjects: Vec<String>,
    pub syntax: String,
    pub icase: bool,
    pub rev_alt: bool,
    /// the pattern is NOT prefixed by the literal starting point: the whole path r/<subject> is then
    /// (almost) never in the language although a suffix of it is - the suffix/substring trap
    #[serde(default)]
    pub no_prefix: bool,
    /// anchors around the whole pattern, which change nothing about its language: bits 0-1 at the
    /// end (1 `$`, 2 `\'`, 3 the pattern grouped and then `$`), bits 2-3 at the start (1 `^`, 2 `` \` ``);
    /// bit 4: in posix-extended a literal `)` outside every group is written without its backslash;
    /// bit 5: an alternation at the top of the AST is written at the top of the pattern, each
    /// alternative with the starting-point prefix of its own
    #[serde(default)]
    pub anchors: u8,
    /// a word W: the pattern (after the starting-point prefix) begins with a group holding W and a
    /// back-reference to it, i.e. its language is W W L(re)
    #[serde(default)]
    pub backref: Option<String>,
}

/// the pattern text of a case for the AST `f` (the case's AST, possibly prefixed)
fn render_case(c: &Case, f: &Re) -> String {
    let fam = family(&c.syntax);
    let mut p = render(f, &c.syntax, c.rev_alt);
    let (open, close) = if fam == 3 { ("(", ")") } else { ("\\(", "\\)") };
    if let Some(w) = c.backref.as_ref().filter(|_| !c.no_prefix) {
        // `f` holds W twice after the prefix (see `with_backref`): the first becomes a group, the
        // second a reference to it (group 2 if the whole pattern is put into a group below)
        let at = p.find(&format!("r/{w}{w}")).expect("prefix and the doubled word are literal text") + 2;
        let n = if c.anchors & 3 == 3 { 2 } else { 1 };
        p.replace_range(at..at + 2 * w.len(), &format!("{open}{w}{close}\\{n}"));
    }
    if let (true, Re::Alt(branches)) = (c.anchors & 32 != 0 && !c.no_prefix, &c.re) {
        // the alternation at the top of the AST written at the top of the pattern, each alternative
        // with the prefix of its own: r/A|r/B instead of r/(A|B) - the same language, and the only
        // form in which a whole-path match has to choose between top-level alternatives
        let root = if p.starts_with("c/r/") { "c/r/" } else { "r/" };
        let bar = if fam == 3 { "|" } else { "\\|" };
        let n = if c.anchors & 3 == 3 { 2 } else { 1 };
        let mut order: Vec<&Re> = branches.iter().collect();
        if c.rev_alt {
            order.reverse();
        }
        let parts: Vec<String> = order
            .iter()
            .enumerate()
            .map(|(k, b)| {
                let word = match c.backref.as_ref() {
                    Some(w) if k == 0 => format!("{open}{w}{close}\\{n}"),
                    Some(w) => format!("{w}{w}"),
                    None => String::new(),
                };
                format!("{root}{word}{}", render(&Re::Cat(vec![(*b).clone()]), &c.syntax, c.rev_alt))
            })
            .collect();
        p = parts.join(bar);
    }
    if c.anchors & 3 == 3 {
        p = format!("{open}{p}{close}");
    }
    if c.anchors & 16 != 0 && fam == 3 {
        // un-escape `\)` at group depth 0 (bracket expressions never hold parentheses here)
        let mut out = String::new();
        let mut depth = 0usize;
        let mut it = p.chars().peekable();
        while let Some(ch) = it.next() {
            match ch {
                '\\' => {
                    let n = it.next().unwrap_or('\\');
                    if n == ')' && depth == 0 {
                        out.push(')');
                    } else {
                        out.push('\\');
                        out.push(n);
                    }
                }
                '(' => {
                    depth += 1;
                    out.push(ch);
                }
                ')' => {
                    depth = depth.saturating_sub(1);
                    out.push(ch);
                }
                _ => out.push(ch),
            }
        }
        p = out;
    }
    match c.anchors & 3 {
        1 | 3 => p.push('$'),
        2 => p.push_str("\\'"),
        _ => {}
    }
    match (c.anchors >> 2) & 3 {
        1 => p.insert(0, '^'),
        2 => p.insert_str(0, "\\`"),
        _ => {}
    }
    p
}

fn gen_subjects(g: &mut Gen, re: &Re) -> Vec<String> {
    let mut v: Vec<String> = vec![];
    for _ in 0..4 {
        let mut budget = 60;
        if let Some(m) = sample_member(re, g, &mut budget) {
            if m.len() <= 14 {
                v.push(m);
            }
        }
    }
    let members = v.clone();
    for m in &members {
        let ch: Vec<char> = m.chars().collect();
        for k in 0..ch.len() {
            v.push(ch[..k].iter().collect()); // proper prefixes
        }
        if !ch.is_empty() {
            v.push(ch[1..].iter().collect()); // suffix
        }
        v.push(format!("{m}a"));
        v.push(format!("{m}b"));
        v.push(format!("a{m}"));
        v.push(m.to_uppercase());
        if !ch.is_empty() {
            let k = g.below(ch.len() as u64) as usize;
            let mut e = ch.clone();
            e[k] = g.pick(&['a', 'b', 'c', 'x', '.']);
            v.push(e.iter().collect());
        }
    }
    for _ in 0..3 {
        let n = g.usize_in(0, 5);
        v.push((0..n).map(|_| g.pick(&['a', 'b', 'c', '.', '+', '?'])).collect());
    }
    // a member followed by a newline and more: only a prefix of such a path is in the language (an
    // end-of-line anchor would accept it); only where nothing in the pattern could consume the newline
    if !re.may_match_newline() {
        for m in members.iter().take(3) {
            v.push(format!("{m}\n"));
            v.push(format!("{m}\n{}", g.pick(&["a", "b", "\n", "a\nb"])));
        }
        if let Some(m) = members.first() {
            v.push(format!("\n{m}"));
        }
    }
    v.sort();
    v.dedup();
    v.truncate(48);
    v
}

pub fn gen_case(g: &mut Gen) -> Case {
    let d = g.usize_in(1, 4);
    let re = gen_re(g, d);
    let ok: Vec<&str> = SYNTAXES.iter().copied().filter(|s| re.expressible(s)).collect();
    let syntax = g.pick(&ok).to_string();
    let mut subjects = gen_subjects(g, &re);
    let anchors = (if g.chance(1, 3) { g.weighted(&[3, 4, 2, 2]) as u8 | (g.weighted(&[4, 2, 1]) as u8) << 2 | if g.chance(1, 3) { 16 } else { 0 } } else { 0 }) | if matches!(re, Re::Alt(_)) && g.bool() { 32 } else { 0 };
    let no_prefix = g.chance(1, 5);
    let backref = if !no_prefix && g.chance(1, 5) { Some(g.pick(&["a", "ab", "b", "c", "ba"]).to_string()) } else { None };
    if let Some(w) = &backref {
        // subjects of W W L(re): the doubled word in front, and near-misses of it
        let other = if w == "a" { "b" } else { "a" };
        subjects = subjects.iter().flat_map(|s| [format!("{w}{w}{s}"), format!("{w}{s}"), format!("{w}{other}{s}")]).collect();
        subjects.sort();
        subjects.dedup();
        subjects.truncate(60);
    }
    Case { re, subjects, syntax, icase: g.chance(1, 3), rev_alt: g.chance(1, 3), no_prefix, anchors, backref }
}

fn full(re: &Re) -> Re {
    Re::Cat(vec![Re::Lit('r'), Re::Lit('/'), re.clone()])
}

/// the case's AST behind the doubled word of its back-reference, if it has one
fn with_backref(c: &Case) -> Re {
    match c.backref.as_ref().filter(|_| !c.no_prefix) {
        Some(w) => {
            let mut v: Vec<Re> = w.chars().chain(w.chars()).map(Re::Lit).collect();
            v.push(c.re.clone());
            Re::Cat(v)
        }
        None => c.re.clone(),
    }
}

fn full_of(c: &Case) -> Re {
    if c.no_prefix {
        c.re.clone()
    } else {
        full(&with_backref(c))
    }
}

fn signature_parts(c: &Case, want: bool, subject: &str, members: &[&String]) -> String {
    let mut k: Vec<&str> = vec![];
    if c.re.has_alt() {
        k.push("alternation");
    }
    if c.re.uses_interval() {
        k.push("interval");
    } else if c.re.has_counted() {
        k.push("plus-or-optional");
    }
    if k.is_empty() {
        k.push("basic");
    }
    let rel = if want {
        "member-rejected"
    } else if members.iter().any(|m| m.starts_with(subject) && m.len() > subject.len()) {
        "prefix-of-member-accepted"
    } else if members.iter().any(|m| subject.starts_with(m.as_str())) {
        "extension-of-member-accepted"
    } else {
        "non-member-accepted"
    };
    format!("{}:{}:{rel}", family_name(&c.syntax), k.join("+"))
}

fn family_name(s: &str) -> &'static str {
    match family(s) {
        0 => "emacs",
        1 => "posix-basic",
        2 => "grep",
        _ => "posix-extended",
    }
}

pub fn check_hook(_ctx: &mut Ctx, c: &Case) -> Outcome {
    check_hook_inner(c)
}

pub fn check_hook_inner(c: &Case) -> Outcome {
    if !c.re.expressible(&c.syntax) {
        return Pass::discard("AST not expressible in this syntax");
    }
    let f = full_of(c);
    let pattern = render_case(c, &f);
    // whether '.' and negated sets consume a newline differs between the syntaxes and is not settled
    // by the statement: with such a construct in the pattern, subjects holding a newline are left out
    let undecided_newline = c.re.may_match_newline();
    let paths: Vec<String> = c.subjects.iter().filter(|s| !(undecided_newline && s.contains('\n'))).map(|s| format!("r/{s}")).collect();
    let refs: Vec<&str> = paths.iter().map(|s| s.as_str()).collect();
    let got = match crate::engine::proc::catch(|| regex_match_many(&c.syntax, &pattern, c.icase, &refs)) {
        Ok(Ok(g)) => g,
        Ok(Err(e)) => return fail(format!("C17:pattern-rejected:{}", family_name(&c.syntax)), format!("-regextype {} {} {pattern:?}: {e}", c.syntax, if c.icase { "-iregex" } else { "-regex" })),
        Err(p) => return fail(format!("C17:panic:{}", p.split(": ").next().unwrap_or("?")), format!("-regextype {} -regex {pattern:?}: {p}", c.syntax)),
    };
    let wants: Vec<bool> = paths.iter().map(|p| member(&f, p, c.icase)).collect();
    let members: Vec<&String> = paths.iter().zip(&wants).filter(|(_, w)| **w).map(|(p, _)| p).collect();
    for ((p, g), w) in paths.iter().zip(&got).zip(&wants) {
        if g != w {
            // a member that is rejected because the backtracking engine gave up (its retry limit)
            // is a finding of its own (listed in known_findings.json): told apart through the hook
            if *w {
                if let Some(e) = regex_match_error(&c.syntax, &pattern, c.icase, p) {
                    return fail("C17:regex-engine-gives-up:member-rejected", format!("find r -regextype {} -regex {pattern:?} on {p:?}: the engine reports {e:?}; the path is in the language but is reported as not matching\nAST {:?}", c.syntax, c.re));
                }
            }
            return fail(
                format!("C17:{}{}", signature_parts(c, *w, p, &members), if c.icase { ":icase" } else { "" }),
                format!("find r -regextype {} {} {pattern:?}: path {p:?} is {} the language, find says {}\nAST {:?}", c.syntax, if c.icase { "-iregex" } else { "-regex" }, if *w { "in" } else { "NOT in" }, if *g { "match" } else { "no match" }, c.re),
            );
        }
    }
    let any_member = wants.iter().any(|w| *w);
    let any_non = wants.iter().any(|w| !*w);
    let prefix_probe = paths.iter().any(|p| members.iter().any(|m| m.starts_with(p.as_str()) && m.len() > p.len()));
    Pass::new((c.re.has_alt() || c.re.has_counted()) && any_member && any_non && prefix_probe)
        .evals(paths.len() as u64)
        .class(family_name(&c.syntax))
        .class_if(c.re.has_alt(), "alternation")
        .class_if(c.re.uses_interval(), "interval")
        .class_if(c.icase, "icase")
        .class_if(c.no_prefix, "pattern-without-starting-point-prefix")
        .class_if(c.rev_alt && c.re.has_alt(), "alternatives-reversed")
        .sample(json!({"regextype": c.syntax, "pattern": pattern, "icase": c.icase, "subjects": c.subjects.len(), "members": members.len()}))
        .ok()
}


// ---------------------------------------------------------------------------
// bracket expressions whose members are characters that are special elsewhere
// ---------------------------------------------------------------------------

/// `r/x[...]y` where the bracket expression holds characters that mean something outside brackets
/// - ']' (first, after the optional '^'), backslash, digits, parentheses, '|', '*', '+', '?', '{',
/// '$', '.', '^' (not first), '-' (last) - all of which are ordinary members inside it in every
/// syntax find offers (a backslash does not quote there).  Subjects: `r/x<c>y` for every candidate
/// character c.  The path is in the language iff (c is a member) != negated.
#[derive(Serialize, Deserialize, Debug, Clone)]
pub struct BracketCase {
    pub syntax: String,
    pub neg: bool,
    /// members in the order written (']' is moved to the front, '-' to the end, '^' off the front)
    pub members: Vec<char>,
    pub icase: bool,
}

const BRACKET_CANDIDATES: &[char] = &[']', '\\', '1', '2', '(', ')', '|', '*', '+', '?', '{', '}', '$', '.', '^', '-', 'a', 'b', 'A', '[', '/'];

fn bracket_text(c: &BracketCase) -> String {
    let mut m: Vec<char> = c.members.clone();
    m.dedup();
    let mut out = String::from("[");
    if c.neg {
        out.push('^');
    }
    if m.contains(&']') {
        out.push(']');
    }
    let mut mid: Vec<char> = m.iter().copied().filter(|x| *x != ']' && *x != '-').collect();
    // '^' must not come first in a positive set: put it behind another member, or behind ']'
    if !c.neg && !m.contains(&']') && mid.first() == Some(&'^') && mid.len() > 1 {
        mid.rotate_left(1);
    }
    // "[." "[=" "[:" would open a collating element / class: keep '[' away from '.', '=' and ':'
    for x in &mid {
        out.push(*x);
    }
    if m.contains(&'-') {
        out.push('-');
    }
    out.push(']');
    out
}

fn check_bracket(_ctx: &mut Ctx, c: &BracketCase) -> Outcome {
    let mut members: Vec<char> = vec![];
    for m in &c.members {
        if !members.contains(m) {
            members.push(*m);
        }
    }
    let c = BracketCase { members, ..c.clone() };
    if c.members.is_empty() || (!c.neg && !c.members.contains(&']') && c.members.iter().filter(|m| **m != '-').eq(['^'].iter())) || c.members.contains(&'[') {
        return Pass::discard("not a well-formed bracket expression for this sub-run");
    }
    let pattern = format!("r/x{}y", bracket_text(&c));
    let paths: Vec<String> = BRACKET_CANDIDATES.iter().filter(|x| **x != '/').map(|x| format!("r/x{x}y")).collect();
    let refs: Vec<&str> = paths.iter().map(|s| s.as_str()).collect();
    let got = match crate::engine::proc::catch(|| regex_match_many(&c.syntax, &pattern, c.icase, &refs)) {
        Ok(Ok(g)) => g,
        Ok(Err(e)) => return fail(format!("C17:bracket-with-special-members:pattern-rejected:{}", family_name(&c.syntax)), format!("-regextype {} -regex {pattern:?}: {e}", c.syntax)),
        Err(p) => return fail(format!("C17:panic:{}", p.split(": ").next().unwrap_or("?")), format!("-regextype {} -regex {pattern:?}: {p}", c.syntax)),
    };
    for ((p, g), ch) in paths.iter().zip(&got).zip(BRACKET_CANDIDATES.iter().filter(|x| **x != '/')) {
        let is_member = c.members.iter().any(|m| m == ch || (c.icase && m.is_ascii_alphabetic() && m.eq_ignore_ascii_case(ch)));
        let want = is_member != c.neg;
        if *g != want {
            let what = match ch {
                '\\' => "backslash",
                ']' => "close-bracket",
                '1' | '2' => "digit-after-backslash",
                '(' | ')' => "parenthesis",
                _ => "other",
            };
            return fail(
                format!("C17:bracket-with-special-members:{}:{}:{what}", if c.neg { "negated" } else { "positive" }, if want { "member-rejected" } else { "non-member-accepted" }),
                format!("find r -regextype {} {} {pattern:?}: path {p:?} is {} the language (inside a bracket expression every character but a leading '^', a ']' that is not first and a '-' between two others stands for itself), find says {}", c.syntax, if c.icase { "-iregex" } else { "-regex" }, if want { "in" } else { "NOT in" }, if *g { "match" } else { "no match" }),
            );
        }
    }
    Pass::new(c.members.iter().any(|m| "]\\()|*+?{$^-".contains(*m)))
        .evals(paths.len() as u64)
        .class(family_name(&c.syntax))
        .class_if(c.neg, "negated-bracket")
        .class_if(c.members.contains(&']'), "close-bracket-as-first-member")
        .class_if(c.members.contains(&'\\'), "backslash-as-member")
        .sample(json!({"regextype": c.syntax, "pattern": pattern, "icase": c.icase}))
        .ok()
}

fn gen_bracket(g: &mut Gen) -> BracketCase {
    let pool: Vec<char> = BRACKET_CANDIDATES.iter().copied().filter(|x| *x != '[' && *x != '/').collect();
    let n = g.usize_in(1, 4);
    let mut members = vec![];
    if g.chance(1, 2) {
        members.push(']');
    }
    for _ in 0..n {
        let m = g.pick(&pool);
        if !members.contains(&m) {
            members.push(m);
        }
    }
    // the classic: backslash followed by a digit, or by a parenthesis
    if g.chance(1, 3) {
        members.retain(|m| *m != '\\' && *m != '1');
        members.push('\\');
        members.push(g.pick(&['1', '2', ')', '(']));
        members.dedup();
    }
    BracketCase { syntax: g.pick(&["emacs", "posix-basic", "posix-extended", "grep", "ed", "sed"]).to_string(), neg: g.bool(), members, icase: g.chance(1, 4) }
}

// ---------------------------------------------------------------------------
// end to end
// ---------------------------------------------------------------------------

#[derive(Serialize, Deserialize, Debug, Clone)]
pub struct E2e {
    pub case: Case,
    /// 0: -regextype T -regex P; 1: -regextype T ( -regex P ); 2: ( -regextype T ) -regex P;
    /// 3: -regextype OTHER ... -regextype T -regex P; 4: default syntax (emacs), no option
    pub shape: u8,
}

fn gen_e2e(g: &mut Gen) -> E2e {
    let mut case = gen_case(g);
    let shape = g.weighted(&[4, 3, 2, 2, 2]) as u8;
    if shape == 4 {
        if !case.re.expressible("emacs") {
            case.re = Re::Cat(vec![Re::Lit('a'), Re::Star(Box::new(Re::Lit('b')))]);
            case.subjects = vec!["a".into(), "ab".into(), "abb".into(), "b".into(), "aba".into()];
        }
        case.syntax = "emacs".into();
    }
    E2e { case, shape }
}

fn check_e2e(ctx: &mut Ctx, e: &E2e) -> Outcome {
    let c = &e.case;
    if !c.re.expressible(&c.syntax) {
        return Pass::discard("AST not expressible in this syntax");
    }
    ctx.fresh_case_dir();
    std::fs::create_dir("c/r").unwrap();
    let mut names: Vec<String> = vec![];
    let undecided_newline = c.re.may_match_newline();
    for s in &c.subjects {
        if undecided_newline && s.contains('\n') {
            continue;
        }
        if !s.is_empty() && s != "." && s != ".." && !s.contains('/') && std::fs::File::create(format!("c/r/{s}")).is_ok() {
            names.push(s.clone());
        }
    }
    // the end-to-end tier always uses the prefixed form; find runs with cwd = sandbox root and the
    // tree is c/r (chdir is process-wide), so the prefix is c/r/
    let f = Re::Cat(vec![Re::Lit('c'), Re::Lit('/'), Re::Lit('r'), Re::Lit('/'), with_backref(c)]);
    let pattern_c = render_case(c, &f);
    let test = if c.icase { "-iregex" } else { "-regex" };
    // a syntax in which the pattern text would mean something else, to expose a lost -regextype
    let other = if family(&c.syntax) == 3 { "posix-basic" } else { "posix-extended" };
    let mut args: Vec<&str> = vec!["c/r", "-sorted"];
    match e.shape {
        0 => args.extend(["-regextype", &c.syntax, test, &pattern_c]),
        1 => args.extend(["-regextype", &c.syntax, "(", test, &pattern_c, ")"]),
        2 => args.extend(["(", "-regextype", &c.syntax, ")", test, &pattern_c]),
        3 => args.extend(["-regextype", other, "-true", "-regextype", &c.syntax, test, &pattern_c]),
        _ => args.extend([test, &pattern_c]),
    }
    args.push("-print0");
    let o = ctx.find(&args);
    if let Some(p) = o.panic {
        return fail(format!("C17:panic:{}", p.split(": ").next().unwrap_or("?")), format!("find {args:?}: {p}"));
    }
    let mut want: Vec<String> = vec![];
    // the starting point itself: "c/r" is never in a language that starts with c/r/
    let mut sorted = names.clone();
    sorted.sort_by(|a, b| a.as_bytes().cmp(b.as_bytes()));
    for n in &sorted {
        if member(&f, &format!("c/r/{n}"), c.icase) {
            want.push(format!("c/r/{n}"));
        }
    }
    let got: Vec<String> = o.stdout.split(|b| *b == 0).filter(|s| !s.is_empty()).map(|s| lossy(s)).collect();
    if got != want || o.status != 0 {
        let shape = match e.shape {
            0 => "regextype-before",
            1 => "regextype-before-parenthesised-regex",
            2 => "regextype-inside-earlier-parentheses",
            3 => "regextype-given-twice",
            _ => "default-syntax",
        };
        let missing: Vec<&String> = want.iter().filter(|w| !got.contains(w)).collect();
        let extra: Vec<&String> = got.iter().filter(|w| !want.contains(w)).collect();
        // members that are rejected only because the engine gave up on them are the listed finding
        // (told apart through the hook, with the pattern as the command line gives it)
        if extra.is_empty() && o.status == 0 && !missing.is_empty() && missing.iter().all(|m| regex_match_error(&c.syntax, &pattern_c, c.icase, m).is_some()) {
            return fail("C17:regex-engine-gives-up:member-rejected", format!("find {args:?}\nthe engine gives up on {missing:?}: in the language but reported as not matching\nAST {:?}", c.re));
        }
        return fail(
            format!("C17:e2e:{shape}:{}:{}{}", family_name(&c.syntax), if !missing.is_empty() { "member-rejected" } else { "non-member-accepted" }, if c.re.has_alt() { ":alternation" } else { "" }),
            format!("find {args:?}\nexit {} stderr {:?}\nin the language but not selected: {missing:?}\nselected but not in the language: {extra:?}\nAST {:?}", o.status, lossy(&o.stderr), c.re),
        );
    }
    Pass::new((c.re.has_alt() || c.re.has_counted()) && !want.is_empty() && want.len() < names.len())
        .evals(names.len() as u64)
        .class("e2e")
        .class_if(e.shape == 1 || e.shape == 2, "e2e-regextype-across-parentheses")
        .class_if(e.shape == 3, "e2e-regextype-twice")
        .sample(json!({"cmdline": format!("find {}", args.join(" ")), "files": names.len(), "selected": want.len()}))
        .ok()
}

// ---------------------------------------------------------------------------
// exhaustive small ASTs
// ---------------------------------------------------------------------------

fn small_asts(max_nodes: usize) -> Vec<Re> {
    let mut by_size: Vec<Vec<Re>> = vec![vec![], vec![Re::Lit('a'), Re::Lit('b'), Re::Any]];
    for n in 2..=max_nodes {
        let mut v = vec![];
        for x in &by_size[n - 1] {
            v.push(Re::Star(Box::new(x.clone())));
            v.push(Re::Plus(Box::new(x.clone())));
            v.push(Re::Opt(Box::new(x.clone())));
            if n <= 3 {
                v.push(Re::Rep(Box::new(x.clone()), 1, Some(2)));
            }
        }
        for i in 1..n - 1 {
            let j = n - 1 - i;
            for x in &by_size[i] {
                for y in &by_size[j] {
                    v.push(Re::Cat(vec![x.clone(), y.clone()]));
                    v.push(Re::Alt(vec![x.clone(), y.clone()]));
                }
            }
        }
        by_size.push(v);
    }
    by_size.into_iter().flatten().collect()
}

fn small_subjects() -> Vec<String> {
    let mut out = vec![String::new()];
    let mut frontier = vec![String::new()];
    for _ in 0..4 {
        let mut next = vec![];
        for s in &frontier {
            for ch in ['a', 'b'] {
                next.push(format!("{s}{ch}"));
            }
        }
        out.extend(next.iter().cloned());
        frontier = next;
    }
    out
}

fn run(w: &mut Worker) {
    w.regress::<Case>("hook", check_hook);
    w.regress::<E2e>("e2e", check_e2e);
    w.regress::<BracketCase>("brackets", check_bracket);
    w.random("brackets", w.tier.pick(6_000, 100_000), (8, 20), 200, gen_bracket, check_bracket);
    w.regress_fuzz(fuzz_one);
    let maxn = w.tier.pick(4usize, 5);
    let asts = small_asts(maxn);
    let subs = small_subjects();
    let mut cases: Vec<Case> = vec![];
    for re in &asts {
        debug_assert!(re.nodes() <= maxn);
        for syn in ["emacs", "posix-basic", "grep", "posix-extended"] {
            if !re.expressible(syn) {
                continue;
            }
            for icase in [false, true] {
                cases.push(Case { re: re.clone(), subjects: subs.clone(), syntax: syn.to_string(), icase, rev_alt: false, no_prefix: false, anchors: 0, backref: None });
            }
            // ^...$ and \`...\' around the whole pattern
            for anchors in [1 | 1 << 2, 2 | 2 << 2] {
                cases.push(Case { re: re.clone(), subjects: subs.clone(), syntax: syn.to_string(), icase: false, rev_alt: false, no_prefix: false, anchors, backref: None });
            }
            if re.has_alt() {
                cases.push(Case { re: re.clone(), subjects: subs.clone(), syntax: syn.to_string(), icase: false, rev_alt: true, no_prefix: true, anchors: 1, backref: None });
                cases.push(Case { re: re.clone(), subjects: subs.clone(), syntax: syn.to_string(), icase: false, rev_alt: false, no_prefix: false, anchors: 32, backref: None });
                cases.push(Case { re: re.clone(), subjects: subs.clone(), syntax: syn.to_string(), icase: false, rev_alt: true, no_prefix: false, anchors: 32 | 1, backref: None });
                cases.push(Case { re: re.clone(), subjects: subs.iter().flat_map(|s| [format!("aa{s}"), format!("a{s}")]).collect(), syntax: syn.to_string(), icase: false, rev_alt: true, no_prefix: false, anchors: 0, backref: Some("a".into()) });
            }
        }
    }
    w.exhaustive("hook-small", &format!("every AST of <= {maxn} nodes over {{a, b, .}} with * + ? {{1,2}} concatenation alternation x every subject of <= 4 symbols over {{a,b}} x four syntaxes x case modes (+ reversed alternatives, + the whole pattern between ^ $ and between \\` \\')"), cases.into_iter(), check_hook);
    w.random("hook", w.tier.pick(200_000, 3_000_000), (40, 200), 800, gen_case, check_hook);
    w.random("e2e", w.tier.pick(30_000, 400_000), (40, 200), 400, gen_e2e, check_e2e);
}

fn replay(w: &mut Worker, sub: &str, v: Value) -> Outcome {
    if sub == "e2e" {
        check_e2e(&mut w.ctx, &decode(v))
    } else if sub == "brackets" {
        check_bracket(&mut w.ctx, &decode(v))
    } else {
        check_hook(&mut w.ctx, &decode(v))
    }
}

/// libFuzzer entry.  Byte 0 even: the remaining bytes are the choice stream of the structured
/// generator (AST, syntax, subjects) and the membership oracle applies.  Byte 0 odd: the remaining
/// bytes are raw pattern text in the syntax picked by byte 1 - oracle: no panic (an error from
/// the compiler is fine).
pub fn fuzz_one(data: &[u8]) -> Option<crate::engine::Violation> {
    if data.len() < 3 {
        return None;
    }
    if data[0] % 2 == 0 {
        let words = crate::words_of(&data[1..]);
        let mut g = Gen::new(&words);
        let c = gen_case(&mut g);
        crate::engine::violation_of(check_hook_inner(&c))
    } else {
        let syntax = SYNTAXES[data[1] as usize % SYNTAXES.len()];
        let text = String::from_utf8_lossy(&data[2..data.len().min(120)]).replace('\0', "");
        let _ = regex_match_many(syntax, &text, data[1] & 0x80 != 0, &["r/a", "r/ab", "r/", "r/aaaaaaaaaaaaaaaaaaaaaaaaab"]);
        None
    }
}
