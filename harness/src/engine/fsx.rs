//! File-system side of the harness: generated tree specifications, the
//! builder that materialises them inside the sandbox, an independent reference
//! walker (plain `read_dir`/`lstat`/`stat`, no code shared with the code under
//! test or with `walkdir`), and recursive snapshots.

use super::gen::Gen;
use serde::{Deserialize, Serialize};
use std::collections::BTreeMap;
use std::ffi::CString;
use std::fs::Metadata;
use std::os::unix::ffi::OsStrExt;
use std::os::unix::fs::{FileTypeExt, MetadataExt, PermissionsExt};
use std::path::Path;

#[derive(Clone, Debug, Serialize, Deserialize, PartialEq, Eq)]
pub enum Kind {
    Dir,
    File,
    Fifo,
    Sock,
    /// symbolic link with this target text
    Link(String),
    /// hard link to the node with this path (relative to the case dir)
    Hard(String),
}

#[derive(Clone, Debug, Serialize, Deserialize)]
pub struct Node {
    /// path relative to the worker's cwd, e.g. "c/r/a/b"
    pub path: String,
    pub kind: Kind,
    #[serde(default)]
    pub size: u64,
    #[serde(default)]
    pub mode: Option<u32>,
    #[serde(default)]
    pub owner: Option<(u32, u32)>,
    #[serde(default)]
    pub atime: Option<(i64, u32)>,
    #[serde(default)]
    pub mtime: Option<(i64, u32)>,
}

impl Node {
    pub fn new(path: impl Into<String>, kind: Kind) -> Node {
        Node { path: path.into(), kind, size: 0, mode: None, owner: None, atime: None, mtime: None }
    }
    pub fn name(&self) -> &str {
        self.path.rsplit('/').next().unwrap()
    }
    pub fn parent(&self) -> &str {
        match self.path.rfind('/') {
            Some(i) => &self.path[..i],
            None => "",
        }
    }
}

#[derive(Clone, Debug, Serialize, Deserialize, Default)]
pub struct TreeSpec {
    /// parents before children
    pub nodes: Vec<Node>,
}

fn cstr(p: &str) -> CString {
    CString::new(p.as_bytes()).expect("no NUL in generated paths")
}

pub fn set_times(path: &str, atime: Option<(i64, u32)>, mtime: Option<(i64, u32)>) {
    let omit = libc::timespec { tv_sec: 0, tv_nsec: libc::UTIME_OMIT };
    let ts = |t: Option<(i64, u32)>| match t {
        Some((s, n)) => libc::timespec { tv_sec: s, tv_nsec: n as i64 },
        None => omit,
    };
    let times = [ts(atime), ts(mtime)];
    let c = cstr(path);
    let r = unsafe { libc::utimensat(libc::AT_FDCWD, c.as_ptr(), times.as_ptr(), libc::AT_SYMLINK_NOFOLLOW) };
    assert!(r == 0, "utimensat {path}: {}", std::io::Error::last_os_error());
}

impl TreeSpec {
    /// Materialise the tree (paths are relative to the cwd = sandbox root).
    pub fn build(&self) {
        for n in &self.nodes {
            assert!(!n.path.starts_with('/') && !n.path.split('/').any(|c| c == ".."), "unsafe node path {:?}", n.path);
            match &n.kind {
                Kind::Dir => std::fs::create_dir(&n.path).unwrap_or_else(|e| panic!("mkdir {}: {e}", n.path)),
                Kind::File => {
                    let f = std::fs::File::create(&n.path).unwrap_or_else(|e| panic!("create {}: {e}", n.path));
                    if n.size > 0 {
                        f.set_len(n.size).unwrap(); // sparse
                    }
                }
                Kind::Fifo => {
                    let c = cstr(&n.path);
                    assert!(unsafe { libc::mkfifo(c.as_ptr(), 0o644) } == 0, "mkfifo {}", n.path);
                }
                Kind::Sock => {
                    let l = std::os::unix::net::UnixListener::bind(&n.path).unwrap_or_else(|e| panic!("bind {}: {e}", n.path));
                    drop(l);
                }
                Kind::Link(t) => std::os::unix::fs::symlink(t, &n.path).unwrap_or_else(|e| panic!("symlink {}: {e}", n.path)),
                Kind::Hard(to) => std::fs::hard_link(to, &n.path).unwrap_or_else(|e| panic!("link {}: {e}", n.path)),
            }
        }
        for n in &self.nodes {
            if let Some((u, g)) = n.owner {
                let c = cstr(&n.path);
                assert!(unsafe { libc::lchown(c.as_ptr(), u, g) } == 0, "lchown {}", n.path);
            }
            if let Some(m) = n.mode {
                if !matches!(n.kind, Kind::Link(_)) {
                    std::fs::set_permissions(&n.path, std::fs::Permissions::from_mode(m)).unwrap();
                }
            }
        }
        for n in self.nodes.iter().rev() {
            if n.atime.is_some() || n.mtime.is_some() {
                set_times(&n.path, n.atime, n.mtime);
            }
        }
    }

    pub fn dirs(&self) -> Vec<&Node> {
        self.nodes.iter().filter(|n| n.kind == Kind::Dir).collect()
    }
    pub fn has_link_to_dir(&self) -> bool {
        self.nodes.iter().any(|n| matches!(n.kind, Kind::Link(_)) && Path::new(&n.path).metadata().map(|m| m.is_dir()).unwrap_or(false))
    }
}

/// relative link text from directory `from_dir` to `to` (both relative to the same base)
pub fn rel_target(from_dir: &str, to: &str) -> String {
    let f: Vec<&str> = from_dir.split('/').filter(|s| !s.is_empty()).collect();
    let t: Vec<&str> = to.split('/').filter(|s| !s.is_empty()).collect();
    let mut i = 0;
    while i < f.len() && i < t.len() && f[i] == t[i] {
        i += 1;
    }
    let mut parts: Vec<&str> = vec![];
    for _ in i..f.len() {
        parts.push("..");
    }
    parts.extend_from_slice(&t[i..]);
    if parts.is_empty() {
        ".".to_string()
    } else {
        parts.join("/")
    }
}

pub const BENIGN_NAMES: &[&str] = &["a", "b", "c", "d", "e", "f", "x", "y", "ab", "ba", "abc", "xa", "ax", "a.b", "B", "A"];

pub const HOSTILE_NAMES: &[&str] = &[
    " ", "  ", "-", "-n", "-print", "--", "a b", " a", "a ", "a\nb", "\n", "'", "\"", "a'b", "a\"b", "\\", "a\\b", "\\n", "{}", "{}{}", "a{}b", "{", "}", "$(x)", "`x`", "$x", "*", "?", "[", "[a]", "a*", ";", "+", "(", ")", "!", ",", "é", "ü b", "日本", "𝄞", "e\u{301}", "\t", "a\tb", "%", "%p", "~", "#", "&", "|", "<", ">", "..a", ".a", "...",
];

#[derive(Clone, Copy)]
pub struct TreeParams {
    pub max_nodes: usize,
    pub max_depth: usize,
    pub hostile_names: bool,
    /// weights for Dir, File, Link, Fifo, Sock, Hard
    pub kind_w: [u32; 6],
    /// allow links that close a cycle (to an ancestor) / to themselves
    pub cyclic_links: bool,
    pub dangling_links: bool,
    pub random_modes: bool,
    /// allow links that point at themselves (ELOOP)
    pub self_links: bool,
}

impl Default for TreeParams {
    fn default() -> Self {
        TreeParams { max_nodes: 20, max_depth: 4, hostile_names: false, kind_w: [5, 6, 3, 0, 0, 0], cyclic_links: true, dangling_links: true, random_modes: false, self_links: true }
    }
}

pub fn gen_name(g: &mut Gen, hostile: bool, taken: &dyn Fn(&str) -> bool) -> String {
    for _ in 0..6 {
        let base: String = if hostile && g.chance(3, 4) {
            if g.chance(1, 6) {
                // synthesised: 1-4 pieces of hostile fragments
                let k = g.usize_in(1, 4);
                (0..k).map(|_| g.pick(HOSTILE_NAMES)).collect::<Vec<_>>().join("")
            } else {
                g.pick(HOSTILE_NAMES).to_string()
            }
        } else {
            g.pick(BENIGN_NAMES).to_string()
        };
        if base != "." && base != ".." && !base.is_empty() && base.len() <= 255 && !taken(&base) {
            return base;
        }
    }
    // fall back to a fresh benign name
    let mut i = 0;
    loop {
        let n = format!("n{i}");
        if !taken(&n) {
            return n;
        }
        i += 1;
    }
}

/// Generate a tree rooted at directory `root` (relative path, created as the first node).
pub fn gen_tree(g: &mut Gen, root: &str, p: &TreeParams) -> TreeSpec {
    gen_tree_with(g, root, p, &[])
}

/// `extra_targets`: paths outside the tree that links may also point to
pub fn gen_tree_with(g: &mut Gen, root: &str, p: &TreeParams, extra_targets: &[String]) -> TreeSpec {
    let mut nodes: Vec<Node> = vec![Node::new(root, Kind::Dir)];
    let root_depth = root.split('/').count();
    let n = g.usize_in(0, p.max_nodes);
    for _ in 0..n {
        // parent: any existing directory whose depth allows a child
        let dirs: Vec<usize> = nodes
            .iter()
            .enumerate()
            .filter(|(_, nd)| nd.kind == Kind::Dir && nd.path.split('/').count() - root_depth < p.max_depth)
            .map(|(i, _)| i)
            .collect();
        if dirs.is_empty() {
            break;
        }
        let pi = dirs[g.below(dirs.len() as u64) as usize];
        let parent = nodes[pi].path.clone();
        let name = {
            let nodes_ref = &nodes;
            let parent_ref = &parent;
            gen_name(g, p.hostile_names, &|nm: &str| nodes_ref.iter().any(|x| x.path == format!("{parent_ref}/{nm}")))
        };
        let path = format!("{parent}/{name}");
        let kind = match g.weighted(&p.kind_w) {
            0 => Kind::Dir,
            1 => Kind::File,
            2 => {
                // link target
                let choice = g.weighted(&[6, if p.dangling_links { 2 } else { 0 }, if p.cyclic_links { 2 } else { 0 }, if p.cyclic_links && p.self_links { 1 } else { 0 }]);
                match choice {
                    0 => {
                        let ti = g.below((nodes.len() + extra_targets.len()) as u64) as usize;
                        let target = if ti < nodes.len() { nodes[ti].path.clone() } else { extra_targets[ti - nodes.len()].clone() };
                        // a link to an ancestor directory closes a cycle: only if allowed
                        let is_ancestor = parent == target || parent.starts_with(&format!("{target}/"));
                        if is_ancestor && !p.cyclic_links {
                            Kind::Link("nowhere".into())
                        } else {
                            Kind::Link(rel_target(&parent, &target))
                        }
                    }
                    1 => Kind::Link("nowhere".into()),
                    2 => {
                        // ancestor: "." or ".." chains that stay inside the root
                        let depth_in = parent.split('/').count() - root_depth;
                        let up = g.usize_in(0, depth_in);
                        if up == 0 {
                            Kind::Link(".".into())
                        } else {
                            Kind::Link(vec![".."; up].join("/"))
                        }
                    }
                    _ => Kind::Link(name.clone()), // points at itself: ELOOP
                }
            }
            3 => Kind::Fifo,
            4 => Kind::Sock,
            _ => {
                let files: Vec<&Node> = nodes.iter().filter(|x| x.kind == Kind::File).collect();
                if files.is_empty() {
                    Kind::File
                } else {
                    Kind::Hard(files[g.below(files.len() as u64) as usize].path.clone())
                }
            }
        };
        let mut node = Node::new(path, kind);
        if node.kind == Kind::File {
            node.size = g.pick(&[0u64, 0, 1, 5, 512, 513, 1024, 4096]);
        }
        if p.random_modes && !matches!(node.kind, Kind::Link(_) | Kind::Hard(_)) {
            node.mode = Some(g.below(0o10000) as u32);
        }
        nodes.push(node);
    }
    TreeSpec { nodes }
}

// ---------------------------------------------------------------------------
// Reference walker
// ---------------------------------------------------------------------------

#[derive(Clone, Copy, PartialEq, Eq, Debug, Serialize, Deserialize)]
pub enum FollowMode {
    P,
    H,
    L,
}

impl FollowMode {
    pub fn flag(self) -> &'static str {
        match self {
            FollowMode::P => "-P",
            FollowMode::H => "-H",
            FollowMode::L => "-L",
        }
    }
    pub fn follows(self, depth: usize) -> bool {
        match self {
            FollowMode::P => false,
            FollowMode::H => depth == 0,
            FollowMode::L => true,
        }
    }
}

#[derive(Clone, Debug)]
pub struct RefEntry {
    pub path: String,
    pub depth: usize,
    /// lstat record
    pub lmeta: Metadata,
    /// stat record (None: dangling / loop)
    pub smeta: Option<Metadata>,
    /// errno of the failed stat (ENOENT, ELOOP, ...)
    pub stat_errno: Option<i32>,
    /// the record the follow mode selects (stat with lstat fallback where the mode follows)
    pub follows: bool,
}

impl RefEntry {
    pub fn name(&self) -> &str {
        // last component; for paths that end in '/' (starting points) the part before it
        let t = self.path.trim_end_matches('/');
        if t.is_empty() {
            return "/";
        }
        t.rsplit('/').next().unwrap()
    }
    pub fn is_link(&self) -> bool {
        self.lmeta.file_type().is_symlink()
    }
    /// status record selected by the follow mode
    pub fn rec(&self) -> &Metadata {
        if self.follows {
            self.smeta.as_ref().unwrap_or(&self.lmeta)
        } else {
            &self.lmeta
        }
    }
    /// the record -xtype looks at (None: cannot be determined -> behaves as a link / loop)
    pub fn xrec(&self) -> Option<&Metadata> {
        if self.follows {
            Some(&self.lmeta)
        } else if self.is_link() {
            self.smeta.as_ref()
        } else {
            Some(&self.lmeta)
        }
    }
    pub fn type_letter(m: &Metadata) -> char {
        let t = m.file_type();
        if t.is_dir() {
            'd'
        } else if t.is_file() {
            'f'
        } else if t.is_symlink() {
            'l'
        } else if t.is_fifo() {
            'p'
        } else if t.is_socket() {
            's'
        } else if t.is_char_device() {
            'c'
        } else if t.is_block_device() {
            'b'
        } else {
            '?'
        }
    }
    pub fn type_of(&self) -> char {
        Self::type_letter(self.rec())
    }
}

#[derive(Clone, Debug)]
pub enum Ev {
    Visit(RefEntry),
    /// a link that closes a directory cycle under the follow mode: diagnosed, not followed
    Loop(String),
    /// starting point or directory that cannot be examined
    Error(String),
}

#[derive(Clone, Copy, PartialEq, Eq)]
pub enum Act {
    Continue,
    Prune,
    Quit,
}

pub struct WalkOpts {
    pub follow: FollowMode,
    pub depth_first: bool,
    pub min_depth: usize,
    pub max_depth: usize,
    /// model an unprivileged user: directories without r-x for "other" cannot be listed
    pub as_other: bool,
}

impl Default for WalkOpts {
    fn default() -> Self {
        WalkOpts { follow: FollowMode::P, depth_first: false, min_depth: 0, max_depth: usize::MAX, as_other: false }
    }
}

pub fn join_path(dir: &str, name: &str) -> String {
    if dir.ends_with('/') {
        format!("{dir}{name}")
    } else {
        format!("{dir}/{name}")
    }
}

pub fn make_entry(path: &str, depth: usize, follow: FollowMode) -> Option<RefEntry> {
    let lmeta = std::fs::symlink_metadata(path).ok()?;
    let (smeta, stat_errno) = match std::fs::metadata(path) {
        Ok(m) => (Some(m), None),
        Err(e) => (None, e.raw_os_error()),
    };
    Some(RefEntry { path: path.to_string(), depth, lmeta, smeta, stat_errno, follows: follow.follows(depth) })
}

/// Walk `root` in sorted (byte-wise) sibling order calling `visit` on every
/// entry with min_depth <= depth <= max_depth.  Returns false if the walk was quit.
/// `events` receives loop / error diagnostics in walk order.
pub fn ref_walk(root: &str, o: &WalkOpts, visit: &mut dyn FnMut(&RefEntry) -> Act, events: &mut Vec<Ev>) -> bool {
    let Some(e) = make_entry(root, 0, o.follow) else {
        events.push(Ev::Error(root.to_string()));
        return true;
    };
    let mut chain: Vec<(u64, u64)> = vec![];
    walk_rec(e, o, visit, events, &mut chain)
}

fn walk_rec(e: RefEntry, o: &WalkOpts, visit: &mut dyn FnMut(&RefEntry) -> Act, events: &mut Vec<Ev>, chain: &mut Vec<(u64, u64)>) -> bool {
    let rec = e.rec().clone();
    let is_dir = rec.is_dir();
    // a followed link to a directory that is one of its own ancestors closes a cycle
    if is_dir && e.is_link() && e.follows && chain.contains(&(rec.dev(), rec.ino())) {
        events.push(Ev::Loop(e.path.clone()));
        return true;
    }
    let in_range = e.depth >= o.min_depth && e.depth <= o.max_depth;
    let mut pruned = false;
    if !o.depth_first && in_range {
        match visit(&e) {
            Act::Quit => return false,
            Act::Prune => pruned = true,
            Act::Continue => {}
        }
    }
    if is_dir && !pruned && e.depth < o.max_depth && o.as_other && (rec.mode() & 0o005) != 0o005 {
        events.push(Ev::Error(e.path.clone()));
    } else if is_dir && !pruned && e.depth < o.max_depth {
        match std::fs::read_dir(&e.path) {
            Err(_) => events.push(Ev::Error(e.path.clone())),
            Ok(rd) => {
                let mut names: Vec<Vec<u8>> = rd.filter_map(|x| x.ok()).map(|x| x.file_name().as_bytes().to_vec()).collect();
                names.sort();
                chain.push((rec.dev(), rec.ino()));
                for n in names {
                    let name = String::from_utf8_lossy(&n).into_owned();
                    let child_path = join_path(&e.path, &name);
                    match make_entry(&child_path, e.depth + 1, o.follow) {
                        None => events.push(Ev::Error(child_path)),
                        Some(c) => {
                            if !walk_rec(c, o, visit, events, chain) {
                                chain.pop();
                                return false;
                            }
                        }
                    }
                }
                chain.pop();
            }
        }
    }
    if o.depth_first && in_range {
        if let Act::Quit = visit(&e) {
            return false;
        }
    }
    true
}

/// Convenience: list of visited paths.
pub fn ref_paths(root: &str, o: &WalkOpts) -> (Vec<RefEntry>, Vec<Ev>) {
    let mut v = vec![];
    let mut ev = vec![];
    ref_walk(root, o, &mut |e| {
        v.push(e.clone());
        Act::Continue
    }, &mut ev);
    (v, ev)
}

// ---------------------------------------------------------------------------
// Snapshots
// ---------------------------------------------------------------------------

#[derive(Clone, Debug, PartialEq, Eq)]
pub struct SnapEntry {
    pub kind: char,
    pub size: u64,
    pub mode: u32,
    pub target: Option<String>,
    pub ino: u64,
    pub nlink: u64,
}

/// lstat-based recursive snapshot (never follows links).
pub fn snapshot(root: &str) -> BTreeMap<String, SnapEntry> {
    let mut m = BTreeMap::new();
    fn rec(p: &str, m: &mut BTreeMap<String, SnapEntry>) {
        let Ok(md) = std::fs::symlink_metadata(p) else { return };
        let kind = RefEntry::type_letter(&md);
        let target = if kind == 'l' { std::fs::read_link(p).ok().map(|t| t.to_string_lossy().into_owned()) } else { None };
        m.insert(p.to_string(), SnapEntry { kind, size: if kind == 'd' { 0 } else { md.len() }, mode: md.mode() & 0o7777, target, ino: md.ino(), nlink: if kind == 'd' { 0 } else { md.nlink() } });
        if kind == 'd' {
            if let Ok(rd) = std::fs::read_dir(p) {
                let mut names: Vec<String> = rd.filter_map(|e| e.ok()).map(|e| e.file_name().to_string_lossy().into_owned()).collect();
                names.sort();
                for n in names {
                    rec(&format!("{p}/{n}"), m);
                }
            }
        }
    }
    rec(root, &mut m);
    m
}
