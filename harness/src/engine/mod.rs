//! The engine: worker-side runner (regression replay, bounded-exhaustive
//! enumeration, proptest-driven random generation with shrinking), evidence
//! accumulation, known-findings matching and replay files.

pub mod expr;
pub mod fsx;
pub mod gen;
pub mod proc;
pub mod xa;

pub use gen::Gen;

use proptest::test_runner::{Config, RngSeed, TestCaseError, TestError, TestRunner};
use serde::de::DeserializeOwned;
use serde::{Deserialize, Serialize};
use serde_json::{json, Value};
use std::cell::RefCell;
use std::collections::{BTreeMap, HashSet};
use std::hash::{Hash, Hasher};
use std::path::PathBuf;

/// Root of the verification tree: /verif, or the directory named by VERIF_ROOT (set by the
/// driver script to its own location, so that a snapshot of the tree can run next to the original).
pub fn verif_root() -> std::path::PathBuf {
    std::path::PathBuf::from(std::env::var("VERIF_ROOT").unwrap_or_else(|_| "/verif".to_string()))
}

#[derive(Clone, Copy, PartialEq, Eq, Debug)]
pub enum Tier {
    Quick,
    Thorough,
}

impl Tier {
    pub fn name(self) -> &'static str {
        match self {
            Tier::Quick => "quick",
            Tier::Thorough => "thorough",
        }
    }
    pub fn pick<T>(self, quick: T, thorough: T) -> T {
        match self {
            Tier::Quick => quick,
            Tier::Thorough => thorough,
        }
    }
}

/// Result of checking one case.
pub enum Outcome {
    Pass(Pass),
    Fail(Violation),
}

#[derive(Default)]
pub struct Pass {
    /// satisfies the property's stated non-triviality rule
    pub nontrivial: bool,
    /// class labels for the distribution histogram
    pub classes: Vec<&'static str>,
    /// the case fell outside the checked domain (counted, not evaluated)
    pub discarded: Option<&'static str>,
    /// human-readable rendering for the evidence samples
    pub sample: Option<Value>,
    /// number of oracle evaluations this case stands for (e.g. all cut sets of one string); 0 = 1
    pub evals: u64,
}

impl Pass {
    pub fn new(nontrivial: bool) -> Self {
        Pass { nontrivial, ..Default::default() }
    }
    pub fn class(mut self, c: &'static str) -> Self {
        self.classes.push(c);
        self
    }
    pub fn class_if(mut self, cond: bool, c: &'static str) -> Self {
        if cond {
            self.classes.push(c);
        }
        self
    }
    pub fn evals(mut self, n: u64) -> Self {
        self.evals = n;
        self
    }
    pub fn sample(mut self, v: Value) -> Self {
        self.sample = Some(v);
        self
    }
    pub fn discard(why: &'static str) -> Outcome {
        Outcome::Pass(Pass { discarded: Some(why), ..Default::default() })
    }
    pub fn ok(self) -> Outcome {
        Outcome::Pass(self)
    }
}

#[derive(Clone, Debug, Serialize, Deserialize)]
pub struct Violation {
    /// specific root-cause key, e.g. "C16:%H:root-has-trailing-slash"
    pub signature: String,
    pub detail: String,
}

pub fn fail(signature: impl Into<String>, detail: impl Into<String>) -> Outcome {
    Outcome::Fail(Violation { signature: signature.into(), detail: detail.into() })
}

/// for fuzz entries: keep only the violation of an outcome
pub fn violation_of(o: Outcome) -> Option<Violation> {
    match o {
        Outcome::Fail(v) => Some(v),
        Outcome::Pass(_) => None,
    }
}

/// Harness-level problem (guard failure, watchdog): the run is inconclusive.
pub fn inconclusive(msg: &str) -> ! {
    println!("INCONCLUSIVE: {msg}");
    std::process::exit(2);
}

#[derive(Clone, Debug, Serialize, Deserialize)]
pub struct KnownFinding {
    pub property: String,
    pub signature: String,
    pub status: String, // "known" | "fixed"
    pub what: String,
    #[serde(default)]
    pub commit: Option<String>,
    #[serde(default)]
    pub input: Option<Value>,
}

pub fn load_known() -> Vec<KnownFinding> {
    let p = verif_root().join("known_findings.json");
    match std::fs::read(&p) {
        Ok(b) => serde_json::from_slice(&b).unwrap_or_else(|e| inconclusive(&format!("known_findings.json unreadable: {e}"))),
        Err(_) => vec![],
    }
}

#[derive(Clone, Debug, Serialize, Deserialize, Default)]
pub struct SubrunInfo {
    pub name: String,
    pub kind: String, // regress | exhaustive | random | fuzz
    pub bound: String,
    pub evaluations: u64,
    pub nontrivial: u64,
    pub exhaustive: bool,
    /// summed over shards (CPU-seconds of worker time, not wall time)
    #[serde(default)]
    pub worker_s: f64,
}

#[derive(Clone, Debug, Serialize, Deserialize)]
pub struct ViolationRecord {
    pub sub: String,
    pub signature: String,
    pub detail: String,
    pub replay: String,
}

#[derive(Default, Serialize, Deserialize)]
pub struct ShardSummary {
    pub evaluations: u64,
    pub nontrivial_exhaustive: u64,
    pub nontrivial_hashes: Vec<u64>,
    pub classes: BTreeMap<String, u64>,
    pub discarded: BTreeMap<String, u64>,
    pub excluded: BTreeMap<String, u64>,
    pub known_hits: BTreeMap<String, u64>,
    pub samples: Vec<Value>,
    pub subruns: Vec<SubrunInfo>,
    pub violations: Vec<ViolationRecord>,
    pub notes: Vec<String>,
}

pub struct Worker {
    pub id: &'static str,
    pub tier: Tier,
    pub seed: u64,
    pub shard: usize,
    pub nshards: usize,
    pub ctx: proc::Ctx,
    pub sum: ShardSummary,
    hashes: HashSet<u64>,
    known: HashSet<String>,
    /// when replaying a file, known findings are not suppressed
    pub strict: bool,
}

pub fn hash_json(v: &Value) -> u64 {
    let s = v.to_string();
    let mut h = std::collections::hash_map::DefaultHasher::new();
    s.hash(&mut h);
    h.finish()
}

fn mix(seed: u64, id: &str, sub: &str, shard: usize) -> u64 {
    let mut h = std::collections::hash_map::DefaultHasher::new();
    (seed, id, sub, shard as u64).hash(&mut h);
    h.finish()
}

const MAX_SAMPLES_PER_SHARD: usize = 3;

impl Worker {
    pub fn new(id: &'static str, tier: Tier, seed: u64, shard: usize, nshards: usize) -> Self {
        let known = load_known()
            .into_iter()
            .filter(|k| k.property == id && k.status == "known")
            .map(|k| k.signature)
            .collect();
        Worker {
            id,
            tier,
            seed,
            shard,
            nshards,
            ctx: proc::Ctx::new(id, shard),
            sum: ShardSummary::default(),
            hashes: HashSet::new(),
            known,
            strict: false,
        }
    }

    pub fn note(&mut self, s: impl Into<String>) {
        self.sum.notes.push(s.into());
    }

    pub fn excluded(&mut self, what: &str, n: u64) {
        *self.sum.excluded.entry(what.to_string()).or_insert(0) += n;
    }

    /// scale a total case count down to this shard
    pub fn share(&self, total: u64) -> u64 {
        let base = total / self.nshards as u64;
        let extra = if (self.shard as u64) < total % self.nshards as u64 { 1 } else { 0 };
        base + extra
    }

    fn record_pass(&mut self, sub: &mut SubrunInfo, p: Pass, case_json: impl FnOnce() -> Value, exhaustive: bool) {
        if let Some(why) = p.discarded {
            *self.sum.discarded.entry(why.to_string()).or_insert(0) += 1;
            return;
        }
        self.sum.evaluations += p.evals.max(1);
        sub.evaluations += p.evals.max(1);
        for c in &p.classes {
            *self.sum.classes.entry(c.to_string()).or_insert(0) += 1;
        }
        if p.nontrivial {
            let cj = case_json();
            let fresh = if exhaustive {
                self.sum.nontrivial_exhaustive += 1;
                true
            } else {
                self.hashes.insert(hash_json(&cj))
            };
            if fresh {
                sub.nontrivial += 1;
                let have = self.sum.samples.iter().filter(|s| s["sub"] == sub.name.as_str()).count();
                if have < MAX_SAMPLES_PER_SHARD {
                    let body = p.sample.unwrap_or(cj);
                    self.sum.samples.push(json!({"sub": sub.name, "case": body}));
                }
            }
        }
    }

    fn is_known(&self, sig: &str) -> bool {
        !self.strict && self.known.contains(sig)
    }

    fn write_replay(&mut self, sub: &str, v: &Violation, case: Value) -> String {
        let dir = verif_root().join("replays");
        let _ = std::fs::create_dir_all(&dir);
        let body = json!({"property": self.id, "sub": sub, "signature": v.signature, "detail": v.detail, "case": case});
        let name = format!("{}-{}-{:016x}.json", self.id, sub, hash_json(&body["case"]));
        let path = dir.join(name);
        std::fs::write(&path, serde_json::to_vec_pretty(&body).unwrap()).expect("write replay");
        path.to_string_lossy().into_owned()
    }

    fn record_violation(&mut self, sub: &str, v: Violation, case: Value) {
        let replay = self.write_replay(sub, &v, case);
        self.sum.violations.push(ViolationRecord { sub: sub.to_string(), signature: v.signature, detail: v.detail, replay });
    }

    /// Replay every committed case of `regress/<ID>/<sub>-*.json` (shard 0 only).
    pub fn regress<C: Serialize + DeserializeOwned>(&mut self, sub: &str, mut check: impl FnMut(&mut proc::Ctx, &C) -> Outcome) {
        if self.shard != 0 {
            return;
        }
        let dir = verif_root().join("regress").join(self.id);
        let mut files: Vec<PathBuf> = match std::fs::read_dir(&dir) {
            Ok(rd) => rd.filter_map(|e| e.ok()).map(|e| e.path()).collect(),
            Err(_) => return,
        };
        files.sort();
        let mut info = SubrunInfo { name: format!("{sub}/regress"), kind: "regress".into(), bound: "committed cases".into(), ..Default::default() };
        for f in files {
            let Ok(bytes) = std::fs::read(&f) else { continue };
            let Ok(v) = serde_json::from_slice::<Value>(&bytes) else { continue };
            if v["sub"] != sub {
                continue;
            }
            let case: C = match serde_json::from_value(v["case"].clone()) {
                Ok(c) => c,
                Err(e) => inconclusive(&format!("regress file {} does not decode: {e}", f.display())),
            };
            match check(&mut self.ctx, &case) {
                Outcome::Pass(p) => self.record_pass(&mut info, p, || v["case"].clone(), true),
                Outcome::Fail(viol) => {
                    if self.is_known(&viol.signature) {
                        *self.sum.known_hits.entry(viol.signature.clone()).or_insert(0) += 1;
                    } else {
                        self.record_violation(sub, viol, v["case"].clone());
                    }
                }
            }
        }
        if info.evaluations > 0 {
            self.sum.subruns.push(info);
        }
    }

    /// Replay every committed libFuzzer artifact `regress/<ID>/*.fuzz` through the property's fuzz
    /// entry (these are the deterministic probes of findings that the fuzz targets produced).
    pub fn regress_fuzz(&mut self, f: fn(&[u8]) -> Option<Violation>) {
        if self.shard != 0 {
            return;
        }
        let dir = verif_root().join("regress").join(self.id);
        let mut files: Vec<PathBuf> = match std::fs::read_dir(&dir) {
            Ok(rd) => rd.filter_map(|e| e.ok()).map(|e| e.path()).filter(|p| p.extension().map_or(false, |x| x == "fuzz")).collect(),
            Err(_) => return,
        };
        files.sort();
        #[derive(Serialize)]
        struct Artifact {
            file: String,
            bytes: Vec<u8>,
        }
        let items: Vec<Artifact> = files.iter().filter_map(|p| std::fs::read(p).ok().map(|b| Artifact { file: p.file_name().unwrap().to_string_lossy().into_owned(), bytes: b })).collect();
        if items.is_empty() {
            return;
        }
        let saved = self.nshards;
        let saved_shard = self.shard;
        // all artifacts on this shard
        self.nshards = 1;
        self.shard = 0;
        self.exhaustive("regress-fuzz-artifacts", "committed libFuzzer artifacts", items.into_iter(), |_, a| match proc::catch(|| f(&a.bytes)) {
            Ok(None) => Pass::new(true).class("fuzz-artifact-replayed").ok(),
            Ok(Some(v)) => Outcome::Fail(v),
            Err(p) => fail(format!("panic:{}", p.split(": ").next().unwrap_or("?")), p),
        });
        self.nshards = saved;
        self.shard = saved_shard;
    }

    /// Enumerate a finite space completely (partitioned over the shards by index).
    pub fn exhaustive<C: Serialize>(
        &mut self,
        sub: &str,
        bound: &str,
        items: impl Iterator<Item = C>,
        mut check: impl FnMut(&mut proc::Ctx, &C) -> Outcome,
    ) {
        let t0 = std::time::Instant::now();
        let mut info = SubrunInfo { name: sub.to_string(), kind: "exhaustive".into(), bound: bound.into(), exhaustive: true, ..Default::default() };
        let mut reported: HashSet<String> = HashSet::new();
        for (i, case) in items.enumerate() {
            if i % self.nshards != self.shard {
                continue;
            }
            match check(&mut self.ctx, &case) {
                Outcome::Pass(p) => self.record_pass(&mut info, p, || serde_json::to_value(&case).unwrap(), true),
                Outcome::Fail(viol) => {
                    if self.is_known(&viol.signature) {
                        *self.sum.known_hits.entry(viol.signature.clone()).or_insert(0) += 1;
                    } else if reported.insert(viol.signature.clone()) {
                        // enumeration is by increasing size: the first failure per signature is (near) minimal
                        self.record_violation(sub, viol, serde_json::to_value(&case).unwrap());
                        if reported.len() >= 5 {
                            break;
                        }
                    }
                }
            }
        }
        info.worker_s = t0.elapsed().as_secs_f64();
        self.sum.subruns.push(info);
    }

    /// Random generation through proptest with shrinking; `total` cases over all shards.
    pub fn random<C: Serialize>(
        &mut self,
        sub: &str,
        total: u64,
        choice_len: (usize, usize),
        max_shrink_iters: u32,
        gen: impl Fn(&mut Gen) -> C,
        check: impl FnMut(&mut proc::Ctx, &C) -> Outcome,
    ) {
        let cases = self.share(total);
        let t0 = std::time::Instant::now();
        let mut info = SubrunInfo { name: sub.to_string(), kind: "random".into(), bound: format!("{total} generated cases (all shards), choice stream {}..={} words", choice_len.0, choice_len.1), ..Default::default() };
        if cases == 0 {
            self.sum.subruns.push(info);
            return;
        }
        // Several rounds: a round ends at the first new violation (after shrinking);
        // the search then goes on with the remaining budget so that one shallow
        // defect does not hide what lies behind it.
        let mut remaining = cases;
        let mut round = 0u64;
        let mut seen_sigs: HashSet<String> = HashSet::new();
        let mut repeats = 0u64;
        let check = RefCell::new(check);
        while remaining > 0 && round < 4 {
            let seed = mix(self.seed, self.id, sub, self.shard) ^ round.wrapping_mul(0x9E37_79B9_7F4A_7C15);
            let config = Config {
                cases: remaining.min(u32::MAX as u64) as u32,
                rng_seed: RngSeed::Fixed(seed),
                failure_persistence: None,
                max_shrink_iters,
                max_global_rejects: 0,
                verbose: 0,
                ..Config::default()
            };
            let mut runner = TestRunner::new(config);
            let strat = proptest::collection::vec(proptest::num::u32::ANY, choice_len.0..=choice_len.1);
            struct St<'w> {
                w: &'w mut Worker,
                info: &'w mut SubrunInfo,
                ran: u64,
                failing: Option<String>,
                seen: &'w mut HashSet<String>,
                /// failures with a signature already reported in this sub-run
                repeats: u64,
            }
            let st = RefCell::new(St { w: self, info: &mut info, ran: 0, failing: None, seen: &mut seen_sigs, repeats });
            let result = runner.run(&strat, |choices| {
                let mut s = st.borrow_mut();
                if s.repeats >= 40 && s.failing.is_none() {
                    // the violations already reported keep recurring: the rest of this sub-run's
                    // budget is given up (such cases can be slow, e.g. a matcher running into its
                    // limit each time) - the cases skipped are not counted as run
                    return Ok(());
                }
                let mut g = Gen::new(&choices);
                let case = gen(&mut g);
                let shrinking = s.failing.is_some();
                let out = {
                    let s2 = &mut *s;
                    (check.borrow_mut())(&mut s2.w.ctx, &case)
                };
                match out {
                    Outcome::Pass(p) => {
                        if !shrinking {
                            s.ran += 1;
                            let s2 = &mut *s;
                            s2.w.record_pass(s2.info, p, || serde_json::to_value(&case).unwrap(), false);
                        }
                        Ok(())
                    }
                    Outcome::Fail(v) => {
                        if s.w.is_known(&v.signature) {
                            if !shrinking {
                                s.ran += 1;
                                *s.w.sum.known_hits.entry(v.signature.clone()).or_insert(0) += 1;
                            }
                            return Ok(());
                        }
                        match &s.failing {
                            None => {
                                s.ran += 1;
                                if s.seen.contains(&v.signature) {
                                    // already reported in an earlier round: keep searching
                                    s.repeats += 1;
                                    if s.repeats == 40 {
                                        let s2 = &mut *s;
                                        s2.w.note(format!("{}: 40 more failures with signatures already reported; the rest of the sub-run is skipped", s2.info.name));
                                    }
                                    return Ok(());
                                }
                                s.failing = Some(v.signature.clone());
                                Err(TestCaseError::fail(v.signature))
                            }
                            // while shrinking, only accept the same root cause
                            Some(sig) if *sig == v.signature => Err(TestCaseError::fail(v.signature)),
                            Some(_) => Ok(()),
                        }
                    }
                }
            });
            let st = st.into_inner();
            let ran = st.ran;
            repeats = st.repeats;
            match result {
                Ok(()) => break,
                Err(TestError::Fail(_, minimal)) => {
                    let mut g = Gen::new(&minimal);
                    let case = gen(&mut g);
                    let out = (check.borrow_mut())(&mut self.ctx, &case);
                    let cj = serde_json::to_value(&case).unwrap();
                    match out {
                        Outcome::Fail(v) => {
                            seen_sigs.insert(v.signature.clone());
                            self.record_violation(sub, v, cj);
                        }
                        Outcome::Pass(_) => {
                            // not reproducible from the shrunk choices: state leak in the harness
                            self.note(format!("{sub}: shrunk failure did not reproduce (flaky); case {}", cj));
                            self.record_violation(sub, Violation { signature: format!("{}:flaky-nonreproducible", self.id), detail: "failure did not reproduce on re-run of the shrunk case".into() }, cj);
                        }
                    }
                    remaining = remaining.saturating_sub(ran.max(1));
                    round += 1;
                }
                Err(TestError::Abort(why)) => {
                    self.note(format!("{sub}: proptest aborted: {why}"));
                    break;
                }
            }
        }
        info.worker_s = t0.elapsed().as_secs_f64();
        self.sum.subruns.push(info);
    }

    pub fn finish(mut self) -> ShardSummary {
        self.sum.nontrivial_hashes = self.hashes.iter().copied().collect();
        self.ctx.cleanup();
        self.sum
    }
}
