//! Driving the built `xargs` binary with the `rec` recorder.

use super::proc::{read_rec_log, rec_bin, xargs_bin, BinOpts, BinOut, Ctx, RecInvocation};
use std::ffi::OsString;

pub struct XargsRun {
    pub out: BinOut,
    pub records: Vec<RecInvocation>,
}

/// `xargs OPTS... CMD...` with stdin = `input`; the recorder log is collected afterwards.
/// `cmd` may be empty (xargs then uses its default echo).
pub fn run_xargs(ctx: &mut Ctx, opts: &[OsString], cmd: &[OsString], input: &[u8], script: &str, mut bo: BinOpts) -> XargsRun {
    let log = ctx.root.join("rec.log");
    let _ = std::fs::remove_file(&log);
    let mut args: Vec<OsString> = opts.to_vec();
    args.extend(cmd.iter().cloned());
    bo.stdin = Some(input.to_vec());
    bo.env.push(("VERIF_REC_LOG".into(), log.clone().into_os_string()));
    bo.env.push(("VERIF_REC_SCRIPT".into(), script.into()));
    let out = ctx.run_bin(&xargs_bin(), &args, &bo);
    let records = read_rec_log(&log);
    XargsRun { out, records }
}

pub fn rec_path() -> OsString {
    rec_bin().into_os_string()
}
