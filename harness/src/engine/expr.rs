//! Reference grammar, parser and evaluator for find expressions, written from
//! the property statements (DESIGN.md Appendix A).  Independent of the code
//! under test: recursive descent over `,` > `-o` > `-a`/juxtaposition > `!` > `( )`.

use super::fsx::{Act, RefEntry};
use serde::{Deserialize, Serialize};
use std::collections::BTreeMap;

#[derive(Clone, Debug, Serialize, Deserialize, PartialEq, Eq)]
pub enum Prim {
    True,
    False,
    /// -name / -iname with a pattern from the modelled glob subset (literals, `*`, `?`)
    Name(String, bool),
    /// -path
    Path(String),
    Type(char),
    Print,
    Print0,
    /// -printf 'LABEL:%p\n'
    Printf(String),
    /// -fprint FILE
    Fprint(String),
    /// -fprint0 FILE
    Fprint0(String),
    /// -fprintf FILE 'LABEL:%p\n'
    Fprintf(String, String),
    /// -exec true ; / -exec false ;
    Exec(bool),
    /// -exec true {} + / -exec false {} + : always true; a batch of `false` fails (exit status 1)
    ExecPlus(bool),
    Prune,
    Quit,
    Delete,
    /// always-true option, rendered as these tokens (-depth, -maxdepth N, ...)
    Opt(Vec<String>),
    /// any other primary: recognised (with its operands) but not evaluated by the model
    Other(Vec<String>),
}

#[derive(Clone, Debug, Serialize, Deserialize, PartialEq, Eq)]
pub enum Ex {
    P(Prim),
    Not(Box<Ex>),
    And(Box<Ex>, Box<Ex>),
    Or(Box<Ex>, Box<Ex>),
    List(Box<Ex>, Box<Ex>),
}

impl Prim {
    pub fn is_action(&self) -> bool {
        match self {
            Prim::Print | Prim::Print0 | Prim::Printf(_) | Prim::Fprint(_) | Prim::Fprint0(_) | Prim::Fprintf(_, _) | Prim::Exec(_) | Prim::ExecPlus(_) | Prim::Delete => true,
            Prim::Other(t) => matches!(t[0].as_str(), "-ls" | "-fls" | "-exec" | "-execdir" | "-ok" | "-okdir" | "-delete" | "-print" | "-print0" | "-printf" | "-fprint" | "-fprint0" | "-fprintf"),
            _ => false,
        }
    }
    pub fn tokens(&self) -> Vec<String> {
        let s = |x: &str| x.to_string();
        match self {
            Prim::True => vec![s("-true")],
            Prim::False => vec![s("-false")],
            Prim::Name(p, i) => vec![s(if *i { "-iname" } else { "-name" }), p.clone()],
            Prim::Path(p) => vec![s("-path"), p.clone()],
            Prim::Type(c) => vec![s("-type"), c.to_string()],
            Prim::Print => vec![s("-print")],
            Prim::Print0 => vec![s("-print0")],
            Prim::Printf(l) => vec![s("-printf"), format!("{l}:%p\\n")],
            Prim::Fprint(f) => vec![s("-fprint"), f.clone()],
            Prim::Fprint0(f) => vec![s("-fprint0"), f.clone()],
            Prim::Fprintf(f, l) => vec![s("-fprintf"), f.clone(), format!("{l}:%p\\n")],
            Prim::Exec(b) => vec![s("-exec"), s(if *b { "true" } else { "false" }), s(";")],
            Prim::ExecPlus(b) => vec![s("-exec"), s(if *b { "true" } else { "false" }), s("{}"), s("+")],
            Prim::Prune => vec![s("-prune")],
            Prim::Quit => vec![s("-quit")],
            Prim::Delete => vec![s("-delete")],
            Prim::Opt(t) | Prim::Other(t) => t.clone(),
        }
    }
}

impl Ex {
    fn level(&self) -> u8 {
        match self {
            Ex::List(..) => 0,
            Ex::Or(..) => 1,
            Ex::And(..) => 2,
            Ex::Not(..) => 3,
            Ex::P(..) => 4,
        }
    }
    pub fn any_prim(&self, f: &mut dyn FnMut(&Prim) -> bool) -> bool {
        match self {
            Ex::P(p) => f(p),
            Ex::Not(a) => a.any_prim(f),
            Ex::And(a, b) | Ex::Or(a, b) | Ex::List(a, b) => a.any_prim(f) || b.any_prim(f),
        }
    }
    pub fn has_action(&self) -> bool {
        self.any_prim(&mut |p| p.is_action())
    }
    pub fn count_prims(&self) -> usize {
        let mut n = 0;
        self.any_prim(&mut |_| {
            n += 1;
            false
        });
        n
    }
    /// operator kinds used: bit 0 '!', 1 '-a', 2 '-o', 3 ','
    pub fn op_kinds(&self) -> u8 {
        match self {
            Ex::P(_) => 0,
            Ex::Not(a) => 1 | a.op_kinds(),
            Ex::And(a, b) => 2 | a.op_kinds() | b.op_kinds(),
            Ex::Or(a, b) => 4 | a.op_kinds() | b.op_kinds(),
            Ex::List(a, b) => 8 | a.op_kinds() | b.op_kinds(),
        }
    }
}

/// Rendering choices (operator spellings, redundant parentheses) come from a
/// small deterministic stream so that they are part of the serialised case.
pub struct RenderStyle<'a> {
    pub choices: &'a [u8],
    pub pos: usize,
}

impl RenderStyle<'_> {
    fn next(&mut self) -> u8 {
        let v = self.choices.get(self.pos).copied().unwrap_or(0);
        self.pos += 1;
        v
    }
}

/// Render with minimal parentheses (precedence carries the structure); the
/// style stream may add redundant parentheses and picks operator spellings.
pub fn render(ex: &Ex, st: &mut RenderStyle, out: &mut Vec<String>) {
    render_at(ex, 0, st, out);
}

fn render_at(ex: &Ex, min_level: u8, st: &mut RenderStyle, out: &mut Vec<String>) {
    let c = st.next();
    let need = ex.level() < min_level;
    let redundant = c % 8 == 7;
    if need || redundant {
        out.push("(".into());
        render_inner(ex, st, out);
        out.push(")".into());
    } else {
        render_inner(ex, st, out);
    }
}

fn render_inner(ex: &Ex, st: &mut RenderStyle, out: &mut Vec<String>) {
    match ex {
        Ex::P(p) => out.extend(p.tokens()),
        Ex::Not(a) => {
            out.push(if st.next() % 2 == 0 { "!" } else { "-not" }.into());
            render_at(a, 3, st, out);
        }
        Ex::And(a, b) => {
            render_at(a, 2, st, out);
            match st.next() % 3 {
                0 => {}
                1 => out.push("-a".into()),
                _ => out.push("-and".into()),
            }
            render_at(b, 3, st, out);
        }
        Ex::Or(a, b) => {
            render_at(a, 1, st, out);
            out.push(if st.next() % 2 == 0 { "-o" } else { "-or" }.into());
            render_at(b, 2, st, out);
        }
        Ex::List(a, b) => {
            render_at(a, 0, st, out);
            out.push(",".into());
            render_at(b, 1, st, out);
        }
    }
}

// ---------------------------------------------------------------------------
// Reference parser / recogniser
// ---------------------------------------------------------------------------

#[derive(Debug, Clone, PartialEq, Eq)]
pub enum ParseErr {
    /// definitely not a sentence of the grammar
    NotSentence(&'static str),
    /// shape the statement does not decide
    Undecided(&'static str),
}

pub const NO_OPERAND: &[&str] = &[
    "-true", "-false", "-empty", "-readable", "-writable", "-executable", "-nouser", "-nogroup", "-print", "-print0", "-ls", "-delete", "-prune", "-quit", "-depth", "-d", "-follow", "-daystart", "-noleaf", "-mount", "-xdev", "-sorted",
];
pub const ONE_OPERAND: &[&str] = &[
    "-name", "-iname", "-lname", "-ilname", "-path", "-ipath", "-wholename", "-iwholename", "-regex", "-iregex", "-type", "-xtype", "-fstype", "-newer", "-anewer", "-cnewer", "-mtime", "-atime", "-ctime", "-mmin", "-amin", "-cmin", "-size", "-inum", "-links", "-samefile", "-user", "-uid", "-group", "-gid", "-perm", "-printf", "-fprint", "-fprint0", "-fls", "-maxdepth", "-mindepth", "-regextype", "-files0-from",
];
pub const OPTIONS: &[&str] = &["-depth", "-d", "-follow", "-daystart", "-noleaf", "-mount", "-xdev", "-sorted", "-maxdepth", "-mindepth", "-regextype", "-files0-from"];

pub fn is_newer_xy(t: &str) -> bool {
    let Some(r) = t.strip_prefix("-newer") else { return false };
    let b = r.as_bytes();
    b.len() == 2 && b"aBcm".contains(&b[0]) && b"aBcmt".contains(&b[1])
}

pub struct Parser<'a> {
    pub t: &'a [String],
    pub i: usize,
}

impl<'a> Parser<'a> {
    pub fn new(t: &'a [String]) -> Self {
        Parser { t, i: 0 }
    }
    fn peek(&self) -> Option<&str> {
        self.t.get(self.i).map(|s| s.as_str())
    }
    /// Parse the whole token vector as an expression (empty = no expression).
    pub fn parse_all(&mut self) -> Result<Option<Ex>, ParseErr> {
        if self.t.is_empty() {
            return Ok(None);
        }
        let e = self.list()?;
        match self.peek() {
            None => Ok(Some(e)),
            Some(")") => Err(ParseErr::NotSentence("unbalanced )")),
            Some(_) => Err(ParseErr::NotSentence("trailing tokens")),
        }
    }
    fn list(&mut self) -> Result<Ex, ParseErr> {
        let mut l = self.or()?;
        while self.peek() == Some(",") {
            self.i += 1;
            let r = self.or()?;
            l = Ex::List(Box::new(l), Box::new(r));
        }
        Ok(l)
    }
    fn or(&mut self) -> Result<Ex, ParseErr> {
        let mut l = self.and()?;
        while matches!(self.peek(), Some("-o") | Some("-or")) {
            self.i += 1;
            let r = self.and()?;
            l = Ex::Or(Box::new(l), Box::new(r));
        }
        Ok(l)
    }
    fn and(&mut self) -> Result<Ex, ParseErr> {
        let mut l = self.not()?;
        loop {
            match self.peek() {
                Some("-a") | Some("-and") => {
                    self.i += 1;
                    let r = self.not()?;
                    l = Ex::And(Box::new(l), Box::new(r));
                }
                None | Some(",") | Some("-o") | Some("-or") | Some(")") => return Ok(l),
                Some(_) => {
                    let r = self.not()?;
                    l = Ex::And(Box::new(l), Box::new(r));
                }
            }
        }
    }
    fn not(&mut self) -> Result<Ex, ParseErr> {
        if matches!(self.peek(), Some("!") | Some("-not")) {
            self.i += 1;
            let a = self.not()?;
            return Ok(Ex::Not(Box::new(a)));
        }
        self.atom()
    }
    fn atom(&mut self) -> Result<Ex, ParseErr> {
        let Some(tok) = self.peek() else { return Err(ParseErr::NotSentence("expression expected at end")) };
        match tok {
            "(" => {
                self.i += 1;
                if self.peek() == Some(")") {
                    return Err(ParseErr::NotSentence("empty parentheses"));
                }
                let e = self.list()?;
                if self.peek() != Some(")") {
                    return Err(ParseErr::NotSentence("missing )"));
                }
                self.i += 1;
                Ok(e)
            }
            ")" => Err(ParseErr::NotSentence("unexpected )")),
            "," | "-o" | "-or" | "-a" | "-and" => Err(ParseErr::NotSentence("operator where an expression is expected")),
            _ => self.primary(),
        }
    }
    fn primary(&mut self) -> Result<Ex, ParseErr> {
        let tok = self.t[self.i].clone();
        let take = |p: &mut Parser, n: usize| -> Result<Vec<String>, ParseErr> {
            if p.i + n >= p.t.len() + 0 && p.i + n > p.t.len() - 1 {
                return Err(ParseErr::NotSentence("primary is missing its operand"));
            }
            let v = p.t[p.i..=p.i + n].to_vec();
            p.i += n + 1;
            Ok(v)
        };
        let name = tok.as_str();
        if matches!(name, "-help" | "--help" | "-version" | "--version") {
            return Err(ParseErr::Undecided("-help/-version stop parsing"));
        }
        if NO_OPERAND.contains(&name) {
            let v = take(self, 0)?;
            return Ok(Ex::P(classify(v)));
        }
        if ONE_OPERAND.contains(&name) || is_newer_xy(name) {
            let v = take(self, 1)?;
            return Ok(Ex::P(classify(v)));
        }
        if name == "-fprintf" {
            let v = take(self, 2)?;
            return Ok(Ex::P(classify(v)));
        }
        if name == "-exec" || name == "-execdir" {
            // CMD word* ';'   |   CMD word* '{}' '+'
            let start = self.i;
            let mut j = self.i + 1;
            loop {
                match self.t.get(j).map(|s| s.as_str()) {
                    None => return Err(ParseErr::NotSentence("-exec without terminator")),
                    Some(";") => break,
                    Some("+") if j > start + 1 && self.t[j - 1] == "{}" => break,
                    Some(_) => j += 1,
                }
            }
            let plus = self.t[j] == "+";
            let words = j - (start + 1); // command + arguments (including {} for +)
            if words == 0 {
                return Err(ParseErr::NotSentence("-exec without a command"));
            }
            if plus {
                if words < 2 {
                    return Err(ParseErr::Undecided("-exec {} + with {} as the command"));
                }
                if self.t[start + 2..j].iter().filter(|w| *w == "{}").count() != 1 {
                    return Err(ParseErr::Undecided("several {} before +"));
                }
            }
            let v = self.t[start..=j].to_vec();
            self.i = j + 1;
            return Ok(Ex::P(classify(v)));
        }
        Err(ParseErr::NotSentence("unknown primary"))
    }
}

fn label_of(fmt: &str) -> Option<String> {
    fmt.strip_suffix(":%p\\n").filter(|l| !l.contains('%') && !l.contains('\\')).map(|l| l.to_string())
}

fn classify(v: Vec<String>) -> Prim {
    let n = v[0].as_str();
    match n {
        "-true" => Prim::True,
        "-false" => Prim::False,
        "-print" => Prim::Print,
        "-print0" => Prim::Print0,
        "-prune" => Prim::Prune,
        "-quit" => Prim::Quit,
        "-delete" => Prim::Delete,
        "-name" | "-iname" if modelled_glob(&v[1]) => Prim::Name(v[1].clone(), n == "-iname"),
        "-path" if modelled_glob(&v[1]) => Prim::Path(v[1].clone()),
        "-type" if v[1].len() == 1 && "fdlps".contains(&v[1]) => Prim::Type(v[1].chars().next().unwrap()),
        "-printf" => match label_of(&v[1]) {
            Some(l) => Prim::Printf(l),
            None => Prim::Other(v),
        },
        "-fprint" => Prim::Fprint(v[1].clone()),
        "-fprint0" => Prim::Fprint0(v[1].clone()),
        "-fprintf" => match label_of(&v[2]) {
            Some(l) => Prim::Fprintf(v[1].clone(), l),
            None => Prim::Other(v),
        },
        "-exec" if v.len() == 3 && v[2] == ";" && (v[1] == "true" || v[1] == "false") => Prim::Exec(v[1] == "true"),
        "-exec" if v.len() == 4 && v[2] == "{}" && v[3] == "+" && (v[1] == "true" || v[1] == "false") => Prim::ExecPlus(v[1] == "true"),
        _ if OPTIONS.contains(&n) => Prim::Opt(v),
        _ => Prim::Other(v),
    }
}

pub fn modelled_glob(p: &str) -> bool {
    !p.contains('[') && !p.contains('\\')
}

/// `*` / `?` / literal glob over whole strings (bytes of UTF-8 chars)
pub fn simple_glob(pat: &str, s: &str, icase: bool) -> bool {
    let p: Vec<char> = if icase { pat.to_lowercase().chars().collect() } else { pat.chars().collect() };
    let t: Vec<char> = if icase { s.to_lowercase().chars().collect() } else { s.chars().collect() };
    fn m(p: &[char], t: &[char]) -> bool {
        match p.first() {
            None => t.is_empty(),
            Some('*') => (0..=t.len()).any(|k| m(&p[1..], &t[k..])),
            Some('?') => !t.is_empty() && m(&p[1..], &t[1..]),
            Some(c) => !t.is_empty() && t[0] == *c && m(&p[1..], &t[1..]),
        }
    }
    m(&p, &t)
}

// ---------------------------------------------------------------------------
// Global options and evaluation
// ---------------------------------------------------------------------------

#[derive(Clone, Debug, Default)]
pub struct GlobalOpts {
    pub depth_first: bool,
    pub min_depth: usize,
    pub max_depth: Option<usize>,
    pub follow_opt: bool,
}

/// Options take effect wherever they appear (even nested / unreachable); last one wins.
pub fn global_opts(ex: &Ex) -> GlobalOpts {
    let mut o = GlobalOpts::default();
    ex.any_prim(&mut |p| {
        match p {
            Prim::Opt(t) => match t[0].as_str() {
                "-depth" | "-d" => o.depth_first = true,
                "-maxdepth" => o.max_depth = t[1].parse().ok(),
                "-mindepth" => o.min_depth = t[1].parse().unwrap_or(0),
                "-follow" => o.follow_opt = true,
                _ => {}
            },
            Prim::Delete => o.depth_first = true,
            _ => {}
        }
        false
    });
    o
}

#[derive(Default, Debug)]
pub struct EvalOut {
    pub stdout: Vec<u8>,
    pub files: BTreeMap<String, Vec<u8>>,
    /// per entry: number of actions skipped by short-circuit
    pub skipped_actions: u64,
    pub quit_fired: bool,
    pub prune_fired: u64,
    /// model cannot evaluate this expression (unmodelled primary reached)
    pub unmodelled: bool,
    /// a path was handed to `-exec false {} +`: that batch fails, find's exit status is 1
    pub failing_batch: bool,
}

pub struct Evaluator<'a> {
    pub ex: &'a Ex,
    pub depth_first: bool,
    pub out: EvalOut,
    quit: bool,
    prune: bool,
}

impl<'a> Evaluator<'a> {
    pub fn new(ex: &'a Ex, depth_first: bool) -> Self {
        let mut out = EvalOut::default();
        // files named by -fprint* exist (empty) as soon as the command line is parsed
        ex.any_prim(&mut |p| {
            match p {
                Prim::Fprint(f) | Prim::Fprint0(f) | Prim::Fprintf(f, _) => {
                    out.files.entry(f.clone()).or_default();
                }
                _ => {}
            }
            false
        });
        Evaluator { ex, depth_first, out, quit: false, prune: false }
    }

    /// Evaluate the expression (with the implied -print when it has no action) on one entry.
    pub fn visit(&mut self, e: &RefEntry) -> Act {
        self.prune = false;
        let has_action = self.ex.has_action();
        let v = self.eval(self.ex, e);
        if !has_action && v && !self.quit {
            self.out.stdout.extend_from_slice(e.path.as_bytes());
            self.out.stdout.push(b'\n');
        }
        if self.quit {
            self.out.quit_fired = true;
            return Act::Quit;
        }
        if self.prune && !self.depth_first {
            return Act::Prune;
        }
        Act::Continue
    }

    fn count_actions(ex: &Ex) -> u64 {
        let mut n = 0;
        ex.any_prim(&mut |p| {
            if p.is_action() {
                n += 1;
            }
            false
        });
        n
    }

    fn eval(&mut self, ex: &Ex, e: &RefEntry) -> bool {
        match ex {
            Ex::P(p) => self.prim(p, e),
            Ex::Not(a) => {
                let v = self.eval(a, e);
                if self.quit {
                    return true;
                }
                !v
            }
            Ex::And(a, b) => {
                let l = self.eval(a, e);
                if self.quit {
                    return true;
                }
                if !l {
                    self.out.skipped_actions += Self::count_actions(b);
                    return false;
                }
                self.eval(b, e)
            }
            Ex::Or(a, b) => {
                let l = self.eval(a, e);
                if self.quit {
                    return true;
                }
                if l {
                    self.out.skipped_actions += Self::count_actions(b);
                    return true;
                }
                self.eval(b, e)
            }
            Ex::List(a, b) => {
                self.eval(a, e);
                if self.quit {
                    return true;
                }
                self.eval(b, e)
            }
        }
    }

    fn prim(&mut self, p: &Prim, e: &RefEntry) -> bool {
        match p {
            Prim::True | Prim::Opt(_) => true,
            Prim::False => false,
            Prim::Name(pat, icase) => simple_glob(pat, e.name(), *icase),
            Prim::Path(pat) => simple_glob(pat, &e.path, false),
            Prim::Type(c) => e.type_of() == *c,
            Prim::Print => {
                self.out.stdout.extend_from_slice(e.path.as_bytes());
                self.out.stdout.push(b'\n');
                true
            }
            Prim::Print0 => {
                self.out.stdout.extend_from_slice(e.path.as_bytes());
                self.out.stdout.push(0);
                true
            }
            Prim::Printf(l) => {
                self.out.stdout.extend_from_slice(format!("{l}:{}\n", e.path).as_bytes());
                true
            }
            Prim::Fprint(f) => {
                let b = self.out.files.entry(f.clone()).or_default();
                b.extend_from_slice(e.path.as_bytes());
                b.push(b'\n');
                true
            }
            Prim::Fprint0(f) => {
                let b = self.out.files.entry(f.clone()).or_default();
                b.extend_from_slice(e.path.as_bytes());
                b.push(0);
                true
            }
            Prim::Fprintf(f, l) => {
                let b = self.out.files.entry(f.clone()).or_default();
                b.extend_from_slice(format!("{l}:{}\n", e.path).as_bytes());
                true
            }
            Prim::Exec(b) => *b,
            Prim::ExecPlus(b) => {
                if !*b {
                    self.out.failing_batch = true;
                }
                true
            }
            Prim::Prune => {
                // only directories (as the follow mode sees them) are cut
                if e.type_of() == 'd' {
                    self.prune = true;
                    self.out.prune_fired += 1;
                }
                true
            }
            Prim::Quit => {
                self.quit = true;
                true
            }
            Prim::Delete | Prim::Other(_) => {
                self.out.unmodelled = true;
                true
            }
        }
    }
}
