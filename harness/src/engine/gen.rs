//! Choice-stream decoder.  Every random decision of every generator is a read
//! from a `Vec<u32>` produced by a proptest strategy, so proptest owns all the
//! randomness: shrinking the vector (deleting elements, lowering values)
//! shrinks the case, and a fixed seed reproduces the run.  All decoders map
//! smaller raw values to simpler choices (0 = simplest) monotonically.

pub struct Gen<'a> {
    data: &'a [u32],
    pos: usize,
}

impl<'a> Gen<'a> {
    pub fn new(data: &'a [u32]) -> Self {
        Gen { data, pos: 0 }
    }
    pub fn used(&self) -> usize {
        self.pos
    }
    pub fn exhausted(&self) -> bool {
        self.pos >= self.data.len()
    }
    pub fn raw(&mut self) -> u32 {
        let v = self.data.get(self.pos).copied().unwrap_or(0);
        self.pos += 1;
        v
    }
    /// uniform in 0..n (n >= 1), monotone in the raw value
    pub fn below(&mut self, n: u64) -> u64 {
        if n <= 1 {
            // still consume so that stream positions stay aligned
            self.raw();
            return 0;
        }
        if n > u32::MAX as u64 {
            let hi = self.raw() as u128;
            let lo = self.raw() as u128;
            return (((hi << 32 | lo) * n as u128) >> 64) as u64;
        }
        ((self.raw() as u64) * n) >> 32
    }
    pub fn range(&mut self, lo: i64, hi: i64) -> i64 {
        debug_assert!(lo <= hi);
        lo + self.below((hi - lo + 1) as u64) as i64
    }
    pub fn usize_in(&mut self, lo: usize, hi: usize) -> usize {
        self.range(lo as i64, hi as i64) as usize
    }
    pub fn bool(&mut self) -> bool {
        self.below(2) == 1
    }
    /// true with probability num/den; raw 0 => false
    pub fn chance(&mut self, num: u64, den: u64) -> bool {
        self.below(den) >= den - num
    }
    pub fn pick<T: Clone>(&mut self, items: &[T]) -> T {
        items[self.below(items.len() as u64) as usize].clone()
    }
    /// index drawn with the given weights (first entries are the "simple" ones)
    pub fn weighted(&mut self, weights: &[u32]) -> usize {
        let total: u64 = weights.iter().map(|w| *w as u64).sum();
        let mut x = self.below(total.max(1));
        for (i, w) in weights.iter().enumerate() {
            if x < *w as u64 {
                return i;
            }
            x -= *w as u64;
        }
        weights.len() - 1
    }
    pub fn u64_any(&mut self) -> u64 {
        ((self.raw() as u64) << 32) | self.raw() as u64
    }
    /// a vector with length in lo..=hi
    pub fn vec_of<T>(&mut self, lo: usize, hi: usize, mut f: impl FnMut(&mut Gen<'a>) -> T) -> Vec<T> {
        let n = self.usize_in(lo, hi);
        (0..n).map(|_| f(self)).collect()
    }
}
