//! Process-level plumbing: per-worker sandbox, in-process `find_main` with
//! captured stdout/stderr/panics and an injected clock, and child-process runs
//! of the built `find` / `xargs` binaries with the `rec` recorder.

use findutils::find::{find_main, Dependencies};
use std::cell::RefCell;
use std::ffi::{OsStr, OsString};
use std::io::{Read, Seek, SeekFrom, Write};
use std::os::unix::ffi::{OsStrExt, OsStringExt};
use std::os::unix::io::{AsRawFd, FromRawFd};
use std::os::unix::process::{CommandExt, ExitStatusExt};
use std::path::{Path, PathBuf};
use std::process::{Command, Stdio};
use std::sync::Mutex;
use std::time::{Duration, Instant, SystemTime};

use super::inconclusive;

pub fn bins() -> PathBuf {
    super::verif_root().join("target").join("bins")
}

pub fn find_bin() -> PathBuf {
    bins().join("find")
}
pub fn xargs_bin() -> PathBuf {
    bins().join("xargs")
}
pub fn rec_bin() -> PathBuf {
    bins().join("rec")
}
/// directory holding only `rec`, `true`, `false`: the PATH of everything we run
pub fn safe_path_dir() -> PathBuf {
    bins().join("path")
}

static PANIC_INFO: Mutex<Option<String>> = Mutex::new(None);

pub fn install_panic_hook() {
    std::panic::set_hook(Box::new(|info| {
        let loc = info.location().map(|l| format!("{}:{}", l.file(), l.line())).unwrap_or_else(|| "?".into());
        let msg = if let Some(s) = info.payload().downcast_ref::<&str>() {
            s.to_string()
        } else if let Some(s) = info.payload().downcast_ref::<String>() {
            s.clone()
        } else {
            "<non-string panic>".into()
        };
        let short: String = msg.chars().take(200).collect();
        if let Ok(mut g) = PANIC_INFO.lock() {
            if g.is_none() {
                *g = Some(format!("{loc}: {short}"));
            }
        }
        // harness panics (outside find_main) must stay visible: print to stdout (fd 2 is captured)
        if !IN_FIND.with(|f| *f.borrow()) {
            println!("HARNESS PANIC at {loc}: {short}");
        }
    }));
}

thread_local! {
    static IN_FIND: RefCell<bool> = const { RefCell::new(false) };
}

/// Run code under test in process (a hook entry point): a panic is caught and returned as
/// "file:line: message" instead of being reported as a harness panic.
pub fn catch<T>(f: impl FnOnce() -> T) -> Result<T, String> {
    *PANIC_INFO.lock().unwrap() = None;
    IN_FIND.with(|x| *x.borrow_mut() = true);
    let r = std::panic::catch_unwind(std::panic::AssertUnwindSafe(f));
    IN_FIND.with(|x| *x.borrow_mut() = false);
    r.map_err(|_| PANIC_INFO.lock().unwrap().take().unwrap_or_else(|| "?".into()))
}

pub struct Ctx {
    /// absolute path of this worker's sandbox; the worker's cwd
    pub root: PathBuf,
    stderr_file: std::fs::File,
    real_stderr: i32,
    pub runs_in_process: u64,
    pub runs_binary: u64,
}

pub struct FindOut {
    pub status: i32,
    pub stdout: Vec<u8>,
    pub stderr: Vec<u8>,
    /// "file:line: message" when find_main panicked
    pub panic: Option<String>,
}

struct Deps {
    out: RefCell<Vec<u8>>,
    now: SystemTime,
}

impl Dependencies for Deps {
    fn get_output(&self) -> &RefCell<dyn Write> {
        &self.out
    }
    fn now(&self) -> SystemTime {
        self.now
    }
}

/// `find ARGS` in process without a sandbox context (fuzz targets): stdout captured, stderr left
/// alone, panics propagate.
pub fn find_plain(args: &[&str]) -> (i32, Vec<u8>) {
    let deps = Deps { out: RefCell::new(Vec::new()), now: SystemTime::UNIX_EPOCH + Duration::from_secs(2_000_000_000) };
    let mut argv: Vec<&str> = vec!["find"];
    argv.extend_from_slice(args);
    let st = find_main(&argv, &deps);
    let out = std::mem::take(&mut *deps.out.borrow_mut());
    (st, out)
}

pub struct BinOut {
    pub code: Option<i32>,
    pub signal: Option<i32>,
    pub stdout: Vec<u8>,
    pub stderr: Vec<u8>,
}

impl BinOut {
    /// ordinary exit (not a panic 101, not an abort/signal)
    pub fn ordinary(&self) -> bool {
        self.signal.is_none() && self.code != Some(101) && self.code != Some(134)
    }
}

#[derive(Default, Clone)]
pub struct BinOpts {
    pub stdin: Option<Vec<u8>>,
    pub env: Vec<(OsString, OsString)>,
    pub stack_limit: Option<u64>, // RLIMIT_STACK soft+hard in bytes; u64::MAX = unlimited
    pub uid: Option<u32>,
    pub cwd: Option<PathBuf>,
    pub timeout_s: u64,
    pub clear_env: bool,
    /// where the child's stdout / stderr go instead of being captured: 1 = /dev/full (every write
    /// fails with ENOSPC), 2 = a pipe whose reading end is closed (EPIPE / SIGPIPE)
    pub stdout_sink: u8,
    pub stderr_sink: u8,
    /// the program is started with SIGCHLD ignored (a disposition that survives exec, as after
    /// `trap '' CHLD` in the invoking shell): children are then reaped by the kernel
    pub ignore_sigchld: bool,
}

fn sink(kind: u8) -> std::fs::File {
    if kind == 1 {
        return std::fs::OpenOptions::new().write(true).open("/dev/full").unwrap_or_else(|e| inconclusive(&format!("/dev/full: {e}")));
    }
    let mut fds = [0i32; 2];
    if unsafe { libc::pipe(fds.as_mut_ptr()) } != 0 {
        inconclusive("pipe failed");
    }
    unsafe {
        libc::close(fds[0]);
        std::fs::File::from_raw_fd(fds[1])
    }
}

impl Ctx {
    pub fn new(id: &str, shard: usize) -> Self {
        // tmpfs when available (directory operations are ~20x cheaper and do not contend on a journal)
        let base = match std::env::var("VERIF_SANDBOX") {
            Ok(p) => p,
            Err(_) => {
                if Path::new("/dev/shm").is_dir() && std::fs::create_dir_all("/dev/shm/verif-sandbox").is_ok() {
                    "/dev/shm/verif-sandbox".to_string()
                } else {
                    super::verif_root().join("target").join("sandbox").to_string_lossy().into_owned()
                }
            }
        };
        let root = PathBuf::from(format!("{base}/{id}-{shard}-{}", std::process::id()));
        let _ = std::fs::remove_dir_all(&root);
        std::fs::create_dir_all(&root).expect("create sandbox");
        std::env::set_current_dir(&root).expect("chdir sandbox");
        std::env::set_var("PATH", safe_path_dir());
        std::env::set_var("LC_ALL", "C.UTF-8");
        std::env::set_var("TZ", "UTC");
        unsafe {
            libc::umask(0o022);
        }
        // fd 2 -> memfd, so that diagnostics of the in-process find are observable
        let name = std::ffi::CString::new("verif-stderr").unwrap();
        let fd = unsafe { libc::memfd_create(name.as_ptr(), 0) };
        if fd < 0 {
            inconclusive("memfd_create failed");
        }
        let real_stderr = unsafe { libc::dup(2) };
        unsafe {
            libc::dup2(fd, 2);
        }
        let stderr_file = unsafe { std::fs::File::from_raw_fd(fd) };
        install_panic_hook();
        Ctx { root, stderr_file, real_stderr, runs_in_process: 0, runs_binary: 0 }
    }

    pub fn cleanup(&mut self) {
        unsafe {
            libc::dup2(self.real_stderr, 2);
        }
        let _ = std::env::set_current_dir("/");
        force_remove(&self.root);
    }

    /// Remove and recreate the per-case directory `c` under the sandbox; returns its relative name.
    pub fn fresh_case_dir(&mut self) -> &'static str {
        let p = self.root.join("c");
        if p.symlink_metadata().is_ok() {
            force_remove(&p);
        }
        std::fs::create_dir(&p).expect("create case dir");
        "c"
    }

    /// Lexical safety check for anything that names a path outside the sandbox.
    pub fn guard_args<S: AsRef<OsStr>>(&self, args: &[S]) {
        const NOT_PATHS: &[&str] = &["-perm", "-name", "-iname", "-path", "-ipath", "-wholename", "-iwholename", "-lname", "-ilname", "-regex", "-iregex", "-printf", "-size", "-user", "-group", "-type", "-xtype", "-regextype", "-d", "-I", "-i"];
        for (i, a) in args.iter().enumerate() {
            // operands that are patterns / modes / formats, not paths
            if i > 0 && NOT_PATHS.iter().any(|n| args[i - 1].as_ref() == OsStr::new(n)) {
                continue;
            }
            if i > 1 && args[i - 2].as_ref() == OsStr::new("-fprintf") {
                continue;
            }
            let b = a.as_ref().as_bytes();
            let risky = b.first() == Some(&b'/') || b.split(|c| *c == b'/').any(|comp| comp == b"..");
            if !risky {
                continue;
            }
            let p = Path::new(a.as_ref());
            let abs = if p.is_absolute() { p.to_path_buf() } else { self.root.join(p) };
            let mut norm = PathBuf::new();
            for comp in abs.components() {
                match comp {
                    std::path::Component::ParentDir => {
                        norm.pop();
                    }
                    std::path::Component::CurDir => {}
                    c => norm.push(c.as_os_str()),
                }
            }
            if !(norm.starts_with(&self.root) || norm.starts_with(bins())) {
                inconclusive(&format!("guard: argument {:?} escapes the sandbox", a.as_ref()));
            }
        }
    }

    fn take_stderr(&mut self) -> Vec<u8> {
        let mut buf = Vec::new();
        let _ = self.stderr_file.seek(SeekFrom::Start(0));
        let _ = self.stderr_file.read_to_end(&mut buf);
        let _ = self.stderr_file.set_len(0);
        let _ = self.stderr_file.seek(SeekFrom::Start(0));
        buf
    }

    /// Run `find ARGS` in process (args without argv[0]).
    pub fn find(&mut self, args: &[&str]) -> FindOut {
        self.find_at(args, SystemTime::now())
    }

    /// Run find on a starting point OUTSIDE the sandbox ("/", "/dev": the only places with mount
    /// points in them).  Allowed only for command lines that cannot change anything and cannot go
    /// deep: every word is from a fixed list of tests/options, `-maxdepth` is 0 or 1, and the only
    /// actions are -print/-print0.
    pub fn find_system_readonly(&mut self, args: &[&str]) -> FindOut {
        const ALLOWED: &[&str] = &["-P", "-H", "-L", "-maxdepth", "-mindepth", "-xdev", "-mount", "-sorted", "-name", "-path", "-type", "-prune", "-print", "-print0", "-o", "-a", "!", "(", ")", "-true", "-false"];
        let mut maxdepth_ok = false;
        for (i, a) in args.iter().enumerate() {
            let operand = i > 0 && ["-maxdepth", "-mindepth", "-name", "-path", "-type"].contains(&args[i - 1]);
            if operand {
                if args[i - 1] == "-maxdepth" {
                    maxdepth_ok = *a == "0" || *a == "1";
                }
                continue;
            }
            if a.starts_with('/') && !a.contains("..") {
                continue; // a starting point (or the recorder's path)
            }
            // the recorder as a command (it only appends to its log): at depth 0 only
            if ["-exec", "-execdir", "{}", "+", ";"].contains(a) {
                if !args.windows(2).any(|w| w[0] == "-maxdepth" && w[1] == "0") {
                    inconclusive("guard: -exec outside the sandbox needs -maxdepth 0");
                }
                if args.iter().enumerate().any(|(j, w)| (*w == "-exec" || *w == "-execdir") && args.get(j + 1).map(|c| Path::new(c) != rec_bin()).unwrap_or(true)) {
                    inconclusive("guard: only the recorder may be run outside the sandbox");
                }
                continue;
            }
            if !ALLOWED.contains(a) {
                inconclusive(&format!("guard: {a:?} is not allowed on a starting point outside the sandbox"));
            }
        }
        if !maxdepth_ok {
            inconclusive("guard: a walk outside the sandbox needs -maxdepth 0 or 1");
        }
        self.find_inner(args, SystemTime::now())
    }

    pub fn find_at(&mut self, args: &[&str], now: SystemTime) -> FindOut {
        self.guard_args(args);
        self.find_inner(args, now)
    }

    fn find_inner(&mut self, args: &[&str], now: SystemTime) -> FindOut {
        self.runs_in_process += 1;
        let _ = self.take_stderr();
        let deps = Deps { out: RefCell::new(Vec::new()), now };
        let mut argv: Vec<&str> = Vec::with_capacity(args.len() + 1);
        argv.push("find");
        argv.extend_from_slice(args);
        *PANIC_INFO.lock().unwrap() = None;
        IN_FIND.with(|f| *f.borrow_mut() = true);
        let r = std::panic::catch_unwind(std::panic::AssertUnwindSafe(|| find_main(&argv, &deps)));
        IN_FIND.with(|f| *f.borrow_mut() = false);
        // the code under test may have changed the cwd? (it does not, but -execdir children do in their own process)
        let stderr = self.take_stderr();
        let stdout = std::mem::take(&mut *deps.out.borrow_mut());
        match r {
            Ok(status) => FindOut { status, stdout, stderr, panic: None },
            Err(_) => {
                let p = PANIC_INFO.lock().unwrap().take().unwrap_or_else(|| "?".into());
                FindOut { status: 101, stdout, stderr, panic: Some(p) }
            }
        }
    }

    /// Run a built binary as a child process.
    pub fn run_bin<S: AsRef<OsStr>>(&mut self, bin: &Path, args: &[S], opts: &BinOpts) -> BinOut {
        self.guard_args(args);
        self.runs_binary += 1;
        let out_f = memfd("out");
        let err_f = memfd("err");
        let mut cmd = Command::new(bin);
        cmd.args(args);
        if opts.clear_env {
            cmd.env_clear();
            cmd.env("PATH", safe_path_dir());
            cmd.env("LC_ALL", "C.UTF-8");
            cmd.env("TZ", "UTC");
        }
        for (k, v) in &opts.env {
            cmd.env(k, v);
        }
        cmd.current_dir(opts.cwd.clone().unwrap_or_else(|| self.root.clone()));
        cmd.stdout(if opts.stdout_sink != 0 { Stdio::from(sink(opts.stdout_sink)) } else { Stdio::from(out_f.try_clone().unwrap()) });
        cmd.stderr(if opts.stderr_sink != 0 { Stdio::from(sink(opts.stderr_sink)) } else { Stdio::from(err_f.try_clone().unwrap()) });
        let stdin_f = opts.stdin.as_ref().map(|data| {
            let mut f = memfd("in");
            f.write_all(data).unwrap();
            f.seek(SeekFrom::Start(0)).unwrap();
            f
        });
        match &stdin_f {
            Some(f) => {
                cmd.stdin(Stdio::from(f.try_clone().unwrap()));
            }
            None => {
                cmd.stdin(Stdio::null());
            }
        }
        let stack = opts.stack_limit;
        let uid = opts.uid;
        let ignore_sigchld = opts.ignore_sigchld;
        unsafe {
            cmd.pre_exec(move || {
                if ignore_sigchld {
                    libc::signal(libc::SIGCHLD, libc::SIG_IGN);
                }
                if let Some(s) = stack {
                    let v = if s == u64::MAX { libc::RLIM_INFINITY } else { s as libc::rlim_t };
                    let rl = libc::rlimit { rlim_cur: v, rlim_max: v };
                    if libc::setrlimit(libc::RLIMIT_STACK, &rl) != 0 {
                        return Err(std::io::Error::last_os_error());
                    }
                }
                if let Some(u) = uid {
                    if libc::setgroups(0, std::ptr::null()) != 0 || libc::setgid(u) != 0 || libc::setuid(u) != 0 {
                        return Err(std::io::Error::last_os_error());
                    }
                }
                Ok(())
            });
        }
        let mut child = match cmd.spawn() {
            Ok(c) => c,
            Err(e) => inconclusive(&format!("cannot spawn {}: {e}", bin.display())),
        };
        let timeout = Duration::from_secs(if opts.timeout_s == 0 { 120 } else { opts.timeout_s });
        let start = Instant::now();
        let mut nap = 50u64; // microseconds
        let status = loop {
            match child.try_wait() {
                Ok(Some(st)) => break st,
                Ok(None) => {
                    if start.elapsed() > timeout {
                        let _ = child.kill();
                        let _ = child.wait();
                        inconclusive(&format!("watchdog: {} {:?} ran longer than {:?}", bin.display(), args.iter().map(|a| a.as_ref().to_string_lossy().into_owned()).collect::<Vec<_>>(), timeout));
                    }
                    std::thread::sleep(Duration::from_micros(nap));
                    nap = (nap * 2).min(5_000);
                }
                Err(e) => inconclusive(&format!("wait failed: {e}")),
            }
        };
        BinOut { code: status.code(), signal: status.signal(), stdout: slurp(out_f), stderr: slurp(err_f) }
    }
}

fn memfd(name: &str) -> std::fs::File {
    let cname = std::ffi::CString::new(name).unwrap();
    let fd = unsafe { libc::memfd_create(cname.as_ptr(), 0) };
    if fd < 0 {
        inconclusive("memfd_create failed");
    }
    unsafe { std::fs::File::from_raw_fd(fd) }
}

fn slurp(mut f: std::fs::File) -> Vec<u8> {
    let mut b = Vec::new();
    let _ = f.seek(SeekFrom::Start(0));
    let _ = f.read_to_end(&mut b);
    b
}

/// remove a tree even if it contains mode-000 directories (we are root, but be thorough)
pub fn force_remove(p: &Path) {
    if std::fs::remove_dir_all(p).is_ok() {
        return;
    }
    fn fix(p: &Path) {
        if let Ok(m) = p.symlink_metadata() {
            if m.is_dir() {
                use std::os::unix::fs::PermissionsExt;
                let _ = std::fs::set_permissions(p, std::fs::Permissions::from_mode(0o700));
                if let Ok(rd) = std::fs::read_dir(p) {
                    for e in rd.flatten() {
                        fix(&e.path());
                    }
                }
            }
        }
    }
    fix(p);
    let _ = std::fs::remove_dir_all(p);
}

/// One invocation recorded by `rec`.
#[derive(Debug, Clone, PartialEq, Eq)]
pub struct RecInvocation {
    pub cwd: Vec<u8>,
    pub args: Vec<Vec<u8>>,
}

pub fn read_rec_log(path: &Path) -> Vec<RecInvocation> {
    let data = std::fs::read(path).unwrap_or_default();
    let mut out = vec![];
    let mut pos = 0usize;
    while pos + 4 <= data.len() {
        let len = u32::from_le_bytes(data[pos..pos + 4].try_into().unwrap()) as usize;
        pos += 4;
        if pos + len > data.len() {
            break;
        }
        let payload = &data[pos..pos + len];
        pos += len;
        let mut fields: Vec<Vec<u8>> = payload.split(|b| *b == 0).map(|s| s.to_vec()).collect();
        fields.pop(); // trailing empty after final NUL
        if fields.is_empty() {
            continue;
        }
        let cwd = fields.remove(0);
        out.push(RecInvocation { cwd, args: fields });
    }
    out
}

pub fn os(b: &[u8]) -> OsString {
    OsString::from_vec(b.to_vec())
}

pub fn lossy(b: &[u8]) -> String {
    String::from_utf8_lossy(b).into_owned()
}

#[allow(dead_code)]
pub fn fd_of(f: &std::fs::File) -> i32 {
    f.as_raw_fd()
}
