//! Recorder command run by `find -exec/-execdir` and `xargs`.
//!
//! Appends one record to the file named by VERIF_REC_LOG:
//!   [u32 LE payload length][cwd NUL arg1 NUL arg2 NUL ... ]   (argv[0] is not recorded)
//! then terminates as VERIF_REC_SCRIPT prescribes for this invocation index
//! (comma separated: a number = exit status, sN = die by signal N; default 0).
//! VERIF_REC_STDOUT set: also writes "R<index>\0" to stdout.
//! VERIF_REC_SLEEP_MS = N: sleep N ms after the record is written and before terminating.
use std::io::{Read, Seek, SeekFrom, Write};
use std::os::unix::ffi::OsStrExt;

fn main() {
    let args: Vec<std::ffi::OsString> = std::env::args_os().skip(1).collect();
    let mut index = 0usize;
    if let Some(log) = std::env::var_os("VERIF_REC_LOG") {
        let mut payload: Vec<u8> = Vec::new();
        let cwd = std::env::current_dir().map(|p| p.as_os_str().as_bytes().to_vec()).unwrap_or_default();
        payload.extend_from_slice(&cwd);
        payload.push(0);
        for a in &args {
            payload.extend_from_slice(a.as_bytes());
            payload.push(0);
        }
        let mut f = std::fs::OpenOptions::new()
            .create(true)
            .read(true)
            .append(true)
            .open(&log)
            .expect("rec: cannot open log");
        // count existing records
        let len = f.metadata().map(|m| m.len()).unwrap_or(0);
        let mut pos = 0u64;
        while pos + 4 <= len {
            let mut h = [0u8; 4];
            f.seek(SeekFrom::Start(pos)).unwrap();
            if f.read_exact(&mut h).is_err() {
                break;
            }
            pos += 4 + u32::from_le_bytes(h) as u64;
            index += 1;
        }
        let mut rec = Vec::with_capacity(payload.len() + 4);
        rec.extend_from_slice(&(payload.len() as u32).to_le_bytes());
        rec.extend_from_slice(&payload);
        f.write_all(&rec).expect("rec: write");
    }
    // VERIF_REC_STDOUT: also write "R<index>\0" to stdout (the order in which the caller's own
    // output and its children's output reach a shared stdout)
    if std::env::var_os("VERIF_REC_STDOUT").is_some() {
        let mut o = std::io::stdout();
        let _ = write!(o, "R{index}\0");
        let _ = o.flush();
    }
    if let Some(ms) = std::env::var("VERIF_REC_SLEEP_MS").ok().and_then(|v| v.parse::<u64>().ok()) {
        std::thread::sleep(std::time::Duration::from_millis(ms));
    }
    let script = std::env::var("VERIF_REC_SCRIPT").unwrap_or_default();
    let step = script.split(',').nth(index).unwrap_or("0").trim().to_string();
    if let Some(sig) = step.strip_prefix('s') {
        let sig: i32 = sig.parse().unwrap_or(15);
        unsafe {
            libc::signal(sig, libc::SIG_DFL);
            libc::kill(libc::getpid(), sig);
        }
        std::thread::sleep(std::time::Duration::from_secs(5));
        std::process::exit(99);
    }
    std::process::exit(step.parse::<i32>().unwrap_or(0));
}
