//! vp-harness: driver for the property checks of /verif.
//!
//!   vp-harness check <ID> [--tier quick|thorough]     parent: spawns the shards, merges evidence
//!   vp-harness worker <ID> <tier> <seed> <i> <n>      one shard (internal)
//!   vp-harness replay <path>                          re-run one saved case, library bypassed

use vp_harness::engine::{self, verif_root, ShardSummary, Tier};
use vp_harness::props;
use serde_json::{json, Value};
use std::collections::{BTreeMap, HashSet};
use std::path::{Path, PathBuf};
use std::process::Command;
use std::time::Instant;

fn usage() -> ! {
    eprintln!("usage: vp-harness check <ID> [--tier quick|thorough] | replay <path> | worker ...");
    std::process::exit(2);
}

fn main() {
    let args: Vec<String> = std::env::args().collect();
    if args.len() < 3 {
        usage();
    }
    match args[1].as_str() {
        "check" => {
            let id = args[2].clone();
            let mut tier = match std::env::var("VERIF_TIER").as_deref() {
                Ok("thorough") => Tier::Thorough,
                _ => Tier::Quick,
            };
            let mut i = 3;
            while i < args.len() {
                if args[i] == "--tier" && i + 1 < args.len() {
                    tier = if args[i + 1] == "thorough" { Tier::Thorough } else { Tier::Quick };
                    i += 1;
                }
                i += 1;
            }
            std::process::exit(parent(&id, tier));
        }
        "worker" => {
            if args.len() < 7 {
                usage();
            }
            let tier = if args[3] == "thorough" { Tier::Thorough } else { Tier::Quick };
            worker(&args[2], tier, args[4].parse().unwrap(), args[5].parse().unwrap(), args[6].parse().unwrap());
        }
        "replay" => std::process::exit(replay(&args[2])),
        _ => usage(),
    }
}

fn run_dir(id: &str) -> PathBuf {
    verif_root().join("target").join("run").join(id)
}

fn worker(id: &str, tier: Tier, seed: u64, shard: usize, n: usize) {
    let Some(def) = props::lookup(id) else {
        println!("unknown property {id}");
        std::process::exit(2);
    };
    let mut w = engine::Worker::new(def.id, tier, seed, shard, n);
    (def.run)(&mut w);
    let runs = (w.ctx.runs_in_process, w.ctx.runs_binary);
    let mut sum = w.finish();
    sum.notes.push(format!("shard {shard}: {} in-process find runs, {} child-process runs", runs.0, runs.1));
    let p = run_dir(id).join(format!("shard-{shard}.json"));
    std::fs::write(&p, serde_json::to_vec(&sum).unwrap()).expect("write shard summary");
}

fn parent(id: &str, tier: Tier) -> i32 {
    let Some(def) = props::lookup(id) else {
        println!("unknown property {id}");
        return 2;
    };
    let start = Instant::now();
    let seed: u64 = std::env::var("VERIF_SEED").ok().and_then(|s| s.parse::<i64>().ok()).map(|v| v as u64).unwrap_or(1);
    let nshards: usize = std::env::var("VERIF_SHARDS").ok().and_then(|s| s.parse().ok()).unwrap_or(16);
    let dir = run_dir(id);
    let _ = std::fs::remove_dir_all(&dir);
    std::fs::create_dir_all(&dir).unwrap();
    let _ = std::fs::create_dir_all(verif_root().join("evidence"));
    let exe = std::env::current_exe().unwrap();
    let mut children = vec![];
    for i in 0..nshards {
        let log = std::fs::File::create(dir.join(format!("shard-{i}.log"))).unwrap();
        let c = Command::new(&exe)
            .args(["worker", id, tier.name(), &seed.to_string(), &i.to_string(), &nshards.to_string()])
            .stdout(log.try_clone().unwrap())
            .stderr(log)
            .stdin(std::process::Stdio::null())
            .spawn()
            .expect("spawn worker");
        children.push(c);
    }
    let budget = std::time::Duration::from_secs(tier.pick(40 * 60, 6 * 3600));
    let mut inconclusive: Vec<String> = vec![];
    for (i, c) in children.iter_mut().enumerate() {
        loop {
            match c.try_wait() {
                Ok(Some(st)) => {
                    if !st.success() {
                        let log = std::fs::read_to_string(dir.join(format!("shard-{i}.log"))).unwrap_or_default();
                        let tail: String = log.lines().rev().take(5).collect::<Vec<_>>().into_iter().rev().collect::<Vec<_>>().join(" | ");
                        inconclusive.push(format!("shard {i} ended with {st}: {tail}"));
                    }
                    break;
                }
                Ok(None) => {
                    if start.elapsed() > budget {
                        let _ = c.kill();
                        let _ = c.wait();
                        inconclusive.push(format!("shard {i} exceeded the wall-clock budget (watchdog)"));
                        break;
                    }
                    std::thread::sleep(std::time::Duration::from_millis(20));
                }
                Err(e) => {
                    inconclusive.push(format!("shard {i}: wait failed: {e}"));
                    break;
                }
            }
        }
    }
    // merge
    let mut total = ShardSummary::default();
    let mut hashes: HashSet<u64> = HashSet::new();
    let mut subruns: BTreeMap<String, engine::SubrunInfo> = BTreeMap::new();
    let mut order: Vec<String> = vec![];
    for i in 0..nshards {
        let p = dir.join(format!("shard-{i}.json"));
        let Ok(b) = std::fs::read(&p) else { continue };
        let Ok(s) = serde_json::from_slice::<ShardSummary>(&b) else { continue };
        total.evaluations += s.evaluations;
        total.nontrivial_exhaustive += s.nontrivial_exhaustive;
        hashes.extend(s.nontrivial_hashes);
        for (k, v) in s.classes {
            *total.classes.entry(k).or_insert(0) += v;
        }
        for (k, v) in s.discarded {
            *total.discarded.entry(k).or_insert(0) += v;
        }
        for (k, v) in s.excluded {
            *total.excluded.entry(k).or_insert(0) += v;
        }
        for (k, v) in s.known_hits {
            *total.known_hits.entry(k).or_insert(0) += v;
        }
        for smp in s.samples {
            let sub = smp["sub"].as_str().unwrap_or("").to_string();
            if total.samples.iter().filter(|x| x["sub"] == sub.as_str()).count() < 4 {
                total.samples.push(smp);
            }
        }
        for sr in s.subruns {
            let e = subruns.entry(sr.name.clone()).or_insert_with(|| {
                order.push(sr.name.clone());
                engine::SubrunInfo { name: sr.name.clone(), kind: sr.kind.clone(), bound: sr.bound.clone(), exhaustive: sr.exhaustive, ..Default::default() }
            });
            e.evaluations += sr.evaluations;
            e.nontrivial += sr.nontrivial;
            e.worker_s += sr.worker_s;
        }
        total.violations.extend(s.violations);
        total.notes.extend(s.notes);
    }
    // thorough tier: coverage-guided campaign (libFuzzer) for the properties that have a fuzz entry
    let mut fuzz_new_units = 0u64;
    if tier == Tier::Thorough && def.fuzz.is_some() && std::env::var("VERIF_NO_FUZZ").is_err() {
        match fuzz_campaign(def, seed, &mut total, &mut inconclusive) {
            Some(info) => {
                fuzz_new_units = info.nontrivial;
                total.evaluations += info.evaluations;
                order.push(info.name.clone());
                subruns.insert(info.name.clone(), info);
            }
            None => {}
        }
    }
    let distinct_nontrivial = hashes.len() as u64 + total.nontrivial_exhaustive + fuzz_new_units;
    let known = engine::load_known();
    let mut exit = 0;
    // one VIOLATION line per distinct signature
    let mut seen = HashSet::new();
    for v in &total.violations {
        if seen.insert(v.signature.clone()) {
            println!("VIOLATION property={} replay={}", id, v.replay);
            println!("  signature: {}", v.signature);
            for l in v.detail.lines().take(12) {
                println!("  {l}");
            }
            exit = 1;
        }
    }
    for (sig, n) in &total.known_hits {
        let what = known.iter().find(|k| &k.signature == sig).map(|k| k.what.clone()).unwrap_or_default();
        println!("KNOWN-FINDING: property={id} {sig}: {what} (hit {n} times)");
    }
    if !inconclusive.is_empty() {
        for m in inconclusive.iter().take(3) {
            let short: String = m.chars().take(400).collect();
            println!("INCONCLUSIVE: {short}");
        }
        if inconclusive.len() > 3 {
            println!("INCONCLUSIVE: ... and {} more shard(s)", inconclusive.len() - 3);
        }
        if exit == 0 {
            exit = 2;
        }
    }
    let all_exhaustive = !subruns.is_empty() && subruns.values().all(|s| s.exhaustive);
    let wall = start.elapsed().as_secs_f64();
    let ev = json!({
        "property_id": id,
        "tier": tier.name(),
        "seed": seed as i64,
        "level": "exploration",
        "coverage": {
            "evaluations": total.evaluations,
            "distinct_nontrivial": distinct_nontrivial,
            "rule": def.rule,
            "samples": total.samples,
            "exhaustive": all_exhaustive,
            "subruns": order.iter().map(|n| serde_json::to_value(&subruns[n]).unwrap()).collect::<Vec<Value>>(),
            "classes": total.classes,
            "discarded_outside_domain": total.discarded,
            "excluded_by_rule": total.excluded,
            "known_findings_hit": total.known_hits,
            "shards": nshards,
            "notes": total.notes,
            "inconclusive": inconclusive,
        },
        "assumptions": def.assumptions,
        "wall_s": wall,
        "violations": seen.len(),
    });
    let evp = verif_root().join("evidence").join(format!("{id}.json"));
    std::fs::write(&evp, serde_json::to_vec_pretty(&ev).unwrap()).expect("write evidence");
    println!(
        "{id} [{}] seed={seed}: {} evaluations, {} distinct non-trivial, {} violation signature(s), {} known finding(s), {:.1}s",
        tier.name(),
        total.evaluations,
        distinct_nontrivial,
        seen.len(),
        total.known_hits.len(),
        wall
    );
    exit
}

fn replay(path: &str) -> i32 {
    let b = match std::fs::read(path) {
        Ok(b) => b,
        Err(e) => {
            println!("cannot read {path}: {e}");
            return 2;
        }
    };
    if let Some(id) = Path::new(path).file_name().and_then(|n| n.to_str()).and_then(|n| n.split("-fuzz-").next().filter(|_| n.contains("-fuzz-")).map(|x| x.to_string())).or_else(|| if path.ends_with(".fuzz") { Path::new(path).parent().and_then(|d| d.file_name()).and_then(|n| n.to_str()).map(|x| x.to_string()) } else { None }) {
        // a libFuzzer artifact: raw bytes for the property's fuzz entry
        let Some(def) = props::lookup(&id) else {
            println!("unknown property {id}");
            return 2;
        };
        let Some(f) = def.fuzz else {
            println!("property {id} has no fuzz entry");
            return 2;
        };
        engine::proc::install_panic_hook();
        return match engine::proc::catch(|| f(&b)) {
            Ok(None) => {
                println!("replay {path}: property {id} holds on this input");
                0
            }
            Ok(Some(v)) => {
                println!("VIOLATION property={id} replay={path}\n  signature: {}\n  {}", v.signature, v.detail.replace('\n', "\n  "));
                1
            }
            Err(p) => {
                println!("VIOLATION property={id} replay={path}\n  signature: {id}:panic:{}\n  {p}", p.split(": ").next().unwrap_or("?"));
                1
            }
        };
    }
    let v: Value = serde_json::from_slice(&b).expect("replay file is JSON");
    let id = v["property"].as_str().expect("property");
    let sub = v["sub"].as_str().expect("sub").to_string();
    let Some(def) = props::lookup(id) else {
        println!("unknown property {id}");
        return 2;
    };
    let mut w = engine::Worker::new(def.id, Tier::Quick, 0, 0, 1);
    w.strict = true;
    let out = (def.replay)(&mut w, &sub, v["case"].clone());
    let _ = w.finish();
    match out {
        engine::Outcome::Pass(_) => {
            println!("replay {path}: property {id} holds on this case");
            0
        }
        engine::Outcome::Fail(viol) => {
            println!("VIOLATION property={id} replay={path}");
            println!("  signature: {}", viol.signature);
            for l in viol.detail.lines().take(40) {
                println!("  {l}");
            }
            1
        }
    }
}

/// libFuzzer campaign for one property (thorough tier).  Eight independent processes with seeds
/// derived from VERIF_SEED, fresh corpus directories seeded from /verif/fuzz/seeds/<ID>/, a fixed
/// number of runs each.  A crash artifact is classified by re-running the property's fuzz entry
/// in this process; listed known findings are counted, anything else is a violation.
fn fuzz_campaign(def: &'static props::PropDef, seed: u64, total: &mut ShardSummary, inconclusive: &mut Vec<String>) -> Option<engine::SubrunInfo> {
    let id = def.id;
    let t0 = Instant::now();
    let root = verif_root();
    let build = Command::new("cargo")
        .args(["+nightly", "fuzz", "build", "--fuzz-dir"])
        .arg(root.join("fuzz"))
        .arg("--target-dir")
        .arg(root.join("target/fuzz"))
        .arg(id)
        .env("CARGO_NET_OFFLINE", "true")
        .current_dir(root.join("fuzz"))
        .output();
    match build {
        Ok(o) if o.status.success() => {}
        Ok(o) => {
            inconclusive.push(format!("fuzz build failed: {}", String::from_utf8_lossy(&o.stderr).lines().rev().take(4).collect::<Vec<_>>().join(" | ")));
            return None;
        }
        Err(e) => {
            inconclusive.push(format!("cargo fuzz not runnable: {e}"));
            return None;
        }
    }
    let bin = root.join("target/fuzz/x86_64-unknown-linux-gnu/release").join(id);
    let run_root = root.join("target/fuzz-run").join(id);
    let _ = std::fs::remove_dir_all(&run_root);
    let procs = 8usize;
    let runs_total: u64 = std::env::var("VERIF_FUZZ_RUNS").ok().and_then(|v| v.parse().ok()).unwrap_or(match id {
        "C01" | "C11" => 400_000,
        _ => 2_000_000,
    });
    let mut children = vec![];
    for k in 0..procs {
        let dir = run_root.join(format!("p{k}"));
        let corpus = dir.join("corpus");
        std::fs::create_dir_all(&corpus).unwrap();
        if let Ok(rd) = std::fs::read_dir(root.join("fuzz/seeds").join(id)) {
            for e in rd.flatten() {
                let _ = std::fs::copy(e.path(), corpus.join(e.file_name()));
            }
        }
        let log = std::fs::File::create(dir.join("log")).unwrap();
        let c = Command::new(&bin)
            .arg(&corpus)
            .args([
                format!("-runs={}", runs_total / procs as u64),
                format!("-seed={}", (seed.wrapping_mul(8).wrapping_add(k as u64) % 0x7fff_ffff).max(1)),
                "-len_control=0".into(),
                "-max_len=400".into(),
                "-close_fd_mask=2".into(),
                "-print_final_stats=1".into(),
                "-timeout=60".into(),
                format!("-artifact_prefix={}/", dir.display()),
            ])
            .current_dir(&dir)
            .stdout(log.try_clone().unwrap())
            .stderr(log)
            .stdin(std::process::Stdio::null())
            .spawn();
        match c {
            Ok(c) => children.push((k, c)),
            Err(e) => inconclusive.push(format!("cannot start fuzz target: {e}")),
        }
    }
    let mut info = engine::SubrunInfo { name: "fuzz".into(), kind: "fuzz".into(), bound: format!("libFuzzer target {id}: {procs} processes x {} runs, max_len 400, fresh corpus + fuzz/seeds/{id}; non-trivial = inputs that added coverage (new_units_added)", runs_total / procs as u64), ..Default::default() };
    engine::proc::install_panic_hook();
    let known = engine::load_known();
    for (k, mut c) in children {
        let pid = c.id();
        let st = c.wait();
        // targets that need a file tree work in a private tmpfs directory named after their pid
        let _ = std::fs::remove_dir_all(format!("/dev/shm/verif-fuzz-{id}-{pid}"));
        let dir = run_root.join(format!("p{k}"));
        let log = std::fs::read_to_string(dir.join("log")).unwrap_or_default();
        for l in log.lines() {
            if let Some(v) = l.strip_prefix("stat::number_of_executed_units:") {
                info.evaluations += v.trim().parse::<u64>().unwrap_or(0);
            }
            if let Some(v) = l.strip_prefix("stat::new_units_added:") {
                info.nontrivial += v.trim().parse::<u64>().unwrap_or(0);
            }
        }
        let crashed = !matches!(st, Ok(s) if s.success());
        if crashed {
            let arts: Vec<PathBuf> = std::fs::read_dir(&dir).map(|rd| rd.flatten().map(|e| e.path()).filter(|p| p.file_name().and_then(|n| n.to_str()).map_or(false, |n| n.starts_with("crash-") || n.starts_with("timeout-") || n.starts_with("oom-"))).collect()).unwrap_or_default();
            if arts.is_empty() {
                inconclusive.push(format!("fuzz process {k} ended abnormally without an artifact: {}", log.lines().rev().take(3).collect::<Vec<_>>().join(" | ")));
                continue;
            }
            for a in arts {
                let name = a.file_name().unwrap().to_string_lossy().into_owned();
                if name.starts_with("timeout-") || name.starts_with("oom-") {
                    inconclusive.push(format!("fuzz process {k}: {name} (slow or large input: inconclusive, not a violation)"));
                    continue;
                }
                let bytes = std::fs::read(&a).unwrap_or_default();
                let f = def.fuzz.unwrap();
                let (sig, detail) = match engine::proc::catch(|| f(&bytes)) {
                    Ok(Some(v)) => (v.signature, v.detail),
                    Ok(None) => (format!("{id}:fuzz-crash-not-reproducible"), "the artifact does not fail when replayed in the harness".into()),
                    Err(p) => (format!("{id}:panic:{}", p.split(": ").next().unwrap_or("?").rsplit("/src/").next().unwrap_or("?")), p),
                };
                if known.iter().any(|kf| kf.status == "known" && kf.signature == sig) {
                    *total.known_hits.entry(sig).or_insert(0) += 1;
                    continue;
                }
                let _ = std::fs::create_dir_all(root.join("replays"));
                let dest = root.join("replays").join(format!("{id}-fuzz-{}", name));
                let _ = std::fs::copy(&a, &dest);
                total.violations.push(engine::ViolationRecord { sub: "fuzz".into(), signature: sig, detail, replay: dest.to_string_lossy().into_owned() });
            }
        }
    }
    info.worker_s = t0.elapsed().as_secs_f64();
    Some(info)
}
