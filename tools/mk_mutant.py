#!/usr/bin/env python3
"""usage: mk_mutant.py NAME FILE <<< 'OLD\n====\nNEW'  — writes /verif/tools/mutants/NAME.patch (a hand-written sensitivity mutant), leaves /repo clean."""
import sys,subprocess
name,f=sys.argv[1],sys.argv[2]
old,new=sys.stdin.read().split('\n====\n')
new=new.rstrip('\n'); old=old.rstrip('\n')
p='/repo/'+f
s=open(p).read()
assert s.count(old)>=1, "old text not found"
open(p,'w').write(s.replace(old,new,1))
d=subprocess.run(['git','-C','/repo','diff'],capture_output=True,text=True).stdout
open(p,'w').write(s)
open(f'/verif/tools/mutants/{name}.patch','w').write(d)
print(name, len(d.splitlines()),'lines')
