#!/bin/bash
# Runs the quick tier of every check for each seed given (default 1) and prints one line per run;
# exit 1 if any run was not quiet.
cd "$(dirname "$0")/.."
./verif setup >/dev/null 2>&1 || { echo "setup failed"; exit 2; }
bad=0
for seed in ${*:-1}; do
  for id in C01 C02 C03 C04 C05 C06 C07 C08 C09 C10 C11 C12 C13 C14 C15 C16 C17 C18 C19 C20; do
    out=$(VERIF_SEED=$seed ./verif check $id --tier quick 2>&1); rc=$?
    echo "seed=$seed $id exit=$rc $(echo "$out" | tail -1 | cut -c1-160)"
    [ $rc -ne 0 ] && { bad=1; echo "$out" | grep -E "^VIOLATION|signature:|INCONCLUSIVE" | head -5; }
  done
done
exit $bad
