#!/bin/bash
# usage: tools/try_patch.sh <patch.diff> <ID> [tier]  — apply a seeded change to /repo, run the check, undo.
set -u
patch=$1; id=$2; tier=${3:-quick}
cd /repo || exit 2
if ! git diff --quiet; then echo "/repo has uncommitted changes"; exit 2; fi
git apply "$patch" 2>/dev/null || git apply -C1 "$patch" 2>/dev/null || git apply -C0 --recount "$patch" || { echo "PATCH DOES NOT APPLY"; exit 3; }
cd /verif && ./verif check "$id" --tier "$tier" > /tmp/try_patch.$$.log 2>&1; rc=$?
git -C /repo checkout -- . 
grep -E "^(VIOLATION|KNOWN|INCONCLUSIVE|BUILD)|signature:" /tmp/try_patch.$$.log | head -8 | cut -c1-300
tail -1 /tmp/try_patch.$$.log | cut -c1-300
rm -f /tmp/try_patch.$$.log
echo "exit=$rc"
