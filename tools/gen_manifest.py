#!/usr/bin/env python3
"""Regenerates /verif/MANIFEST.json from the table below (kept in one place so it stays valid)."""
import json, subprocess
props = {json.loads(l)['id']: json.loads(l) for l in open('/verif/properties.jsonl')}
# id -> (technique, level text, level note, design ref)
CLAIMED = {
 'C01': ('property-based testing: grammar-directed expression generation + bounded-exhaustive token enumeration vs a reference parser/evaluator (proptest, shrinking)',
         'Exploration: every accepted token sequence up to a bound plus thousands of random deep expressions on random trees agree byte-for-byte with an independent reference parser/evaluator/walker. Right level because the property quantifies over an unbounded grammar x trees; no absence claim.',
         'Trusts the reference evaluator (harness/src/engine/expr.rs), the reference walker (plain read_dir/lstat) and -sorted for a defined order; in-process find_main with 1/20 of cases through the binary.', 'DESIGN.md §3 C01'),

 'C02': ('property-based testing: generated trees x follow modes x depth bounds vs an independent reference walker (proptest, shrinking); unprivileged find binary for unreadable directories',
         'Exploration: random trees with every link kind under -P/-H/-L/-follow, all (mindepth,maxdepth) pairs, -depth, several starting points; visited multiset equals the reference walk, cycle/unreadable/missing entries diagnosed with non-zero exit and siblings kept.',
         'Trusts the reference walker (read_dir/lstat/stat + (dev,ino) ancestor chain). ELOOP self-links and the printing of the cycle-closing / unreadable entry itself are left open. One known finding (walkdir, -H -depth root link) is tolerated by exact signature.', 'DESIGN.md §3 C02'),
 'C03': ('property-based testing: bounded-exhaustive small trees x prune subsets + random trees/prune expressions vs reference DFS, with model-independent order invariants; raw-byte sibling order via inode sequence',
         'Exploration: exact visit-sequence equality with the reference DFS for every tree of <=4 (thorough 5) nodes x every prune subset x pre/post order, plus random larger cases and non-UTF-8 sibling names.',
         'Trusts the reference walker/evaluator; -sorted always given. Same known finding as C02 (own signature).', 'DESIGN.md §3 C03'),
 'C04': ('property-based testing: generated argument lists/line layouts/limit combinations against a reference batcher and validity predicates, through the xargs binary and a recorder command',
         'Exploration: thousands of generated inputs x option subsets; observed invocation list equals the reference batcher and independently satisfies losslessness, each limit, and maximality; overflow cases give exit 1 and a prefix of the expected batches.',
         'Trusts the reference batcher (DESIGN.md App. B) and the rec recorder; system ARG_MAX limiter never binding here.', 'DESIGN.md §3 C04'),
 'C05': ('property-based testing + bounded-exhaustive enumeration: all strings over a separator/quote/escape alphabet x all cut sets (chunking invariance, reference splitter), random byte strings x chunkings, delimiter modes; hook + binary end-to-end sample',
         'Exploration: exhaustive over strings up to 6 (thorough 7, and 8 with single cuts) symbols x every way of cutting the stream; random inputs to ~20 KiB straddling the 4096-byte refill edge, invalid UTF-8 included.',
         'Readers reached through the verif-hooks function read_args (chunk-controlled Read); 1/30 random cases (1/12 in delimiter mode, there also through -n 1 / -I routes) through the real binary and a pipe. Reference splitter covers only what the statement fixes.', 'DESIGN.md §3 C05'),
 'C07': ('property-based testing: generated trees with hostile UTF-8 names; byte-exact -print0/-print output vs reference walk; real find|xargs -0 pipeline delivering to a recorder command',
         'Exploration: tens of thousands of trees whose names contain blanks, newlines, quotes, backslashes, leading dashes, glob characters and multi-byte text (up to 255-byte names, outputs past 8 KiB); stdout equals the concatenation of reference paths + terminator, and the built find | xargs -0 rec pipeline delivers each path exactly once unmodified.',
         'Trusts the reference walker and the rec recorder; names are valid UTF-8 (the statement\'s domain); the pipe is modelled by capturing find\'s stdout and feeding it to xargs\' stdin.', 'DESIGN.md §3 C07'),
 'C10': ('property-based testing: twin listing/deletion runs on generated trees with an outside area; file-system snapshot difference vs a removal model; truth of -delete observed through labelled -printf',
         'Exploration: generated trees (links inside/outside, dangling, random modes) x test expressions x follow modes; snapshot(after) == snapshot(before) - removed over the whole case directory, removal order and truth value observed, failing removals (non-empty directories) diagnosed with non-zero exit while the walk continues.',
         'Trusts the snapshot (lstat-based) and the listing run of the same binary for the matched set (the statement defines the set that way); tests restricted to those whose truth cannot depend on earlier deletions.', 'DESIGN.md §3 C10'),
 'C13': ('property-based testing: one directory of every creatable file type x random modes/owners x follow mode x depth 0/1 vs predicates over lstat/stat; exhaustive 4096-mode directory for -perm with octal/symbolic metamorphic relation',
         'Exploration: every creatable entry type with random 12-bit modes and owners under -P/-H/-L at depth 0 and 1, ~14 tests per tree; plus every -perm operand form evaluated against all 4096 permission values at once, octal and symbolic spellings selecting identical sets.',
         'Runs as root (all twelve bits settable, chown to unmapped ids). Reference predicates written from the statement over std::fs metadata.', 'DESIGN.md §3 C13'),
 'C14': ('property-based testing: boundary-value file population (sparse sizes k*u-1,k*u,k*u+1 up to 5 GiB, link counts, ids, ages under an injected clock) x random operands; trichotomy + monotonicity + model value',
         'Exploration: for each generated (test, N, unit) the three forms N/+N/-N partition a population of ~150 boundary-sized files exactly as ceil(size/unit) (or the stat field / whole periods) predicts, and +N/-N selections are monotone in N.',
         'Sparse files report st_size faithfully; ctime-based tests are covered in C15; operands above 2^64-1 belong to C11.', 'DESIGN.md §3 C14'),
 'C15': ('property-based testing: ns-precision timestamps set with utimensat, injected clock at k*period +/- epsilon, all nine -newerXY pairs with independent reference timestamps; model over read-back timestamps',
         'Exploration: ages at k*period -/+ 1 ns, 1 s for k in 0..400 and both periods on all six age tests with all three operand forms; entry.X placed at ref.Y -/+ 1 ns for all XY in {a,c,m}^2 plus -newer/-anewer/-cnewer.',
         'Clock injected through Dependencies::now(); ctime read back (cannot be set); negative ages, -daystart and -newerXt not asserted.', 'DESIGN.md §3 C15'),
 'C06': ('property-based testing with the kernel as oracle: generated argument counts/length profiles x environment sizes x RLIMIT_STACK settings x -n/-s/-L through the xargs binary and a recorder command',
         'Exploration: hundreds (thorough: thousands) of inputs from one to 400000 arguments (1-byte arguments where pointer overhead dominates, page-sized, within 0-2 bytes of the 128 KiB per-argument limit) under kernel budgets from 128 KiB to 6 MiB and environments up to 3/4 of the budget; no invocation is rejected by exec, every argument is delivered once in order; arguments over the per-argument limit give exit 1 and are never handed to exec.',
         'The running Linux kernel decides acceptance (one kernel: this sandbox\'s). Arguments that cannot fit into the whole budget at all may be refused with exit 1 (nothing can pass them).', 'DESIGN.md §3 C06'),
 'C19': ('property-based testing: generated child-outcome sequences (exit codes, signals) scripted into a recorder command vs an exit-status automaton; bounded-exhaustive short sequences; table of own errors',
         'Exploration: every outcome sequence of length <= 4 (thorough 5) over six outcome classes plus random sequences to length 30 with fatal outcomes at every position, missing / non-executable commands, and a table of usage/input errors raised before or after earlier invocations; exit status and number of invocations started equal the automaton\'s.',
         'Trusts the rec recorder (exits / kills itself as scripted). Child exit codes 126-254 are not generated.', 'DESIGN.md §3 C19'),
 'C20': ('property-based testing: generated line lists x initial-argument templates x replacement strings x option spellings vs a reference replace-mode model; bounded-exhaustive order matrix of -I/-n/-L',
         'Exploration: the complete order matrix of 2-3 of {-I, -n k, -L k} (k in 1..3, all four spellings of -I for pairs) plus thousands of random line lists (inner/trailing blanks, R inside lines, blank lines, no final newline) x initial arguments with 0-3 occurrences of R; recorded invocations equal the model exactly.',
         'Lines are free of quotes, backslashes and leading blanks (the stated domain). -I + -n 1 + -L together is not generated (the statement does not decide it).', 'DESIGN.md §3 C20'),
 'C08': ('property-based testing through the find binary and a recorder command: generated trees up to thousands of long names x RLIMIT_STACK settings x -exec/-execdir {} + x tests, -quit, failing invocations; reference walk as oracle, kernel as oracle for acceptance',
         'Exploration: thousands of generated trees (0-3000 entries, thorough 30000; names to 250 bytes) under kernel budgets from 128 KiB so that up to dozens of batches are needed; the concatenation of delivered paths equals the reference visit order (each once), fixed arguments unchanged, -execdir batches single-directory with ./basename and the right cwd, pending batches run after -quit, exit status reflects failing / unstartable invocations, action always true.',
         'Trusts the reference walker and the rec recorder; invocation boundaries are not asserted (only that every command line was accepted).', 'DESIGN.md §3 C08'),
 'C09': ('property-based testing: hostile file names x argument templates with 0-3 {} per argument x scripted child statuses x action position; recorder command log vs template substitution model, in process and through the binary',
         'Exploration: tens of thousands of generated cases; every recorded argv equals the template with each {} replaced by the path (./basename and parent cwd for -execdir) byte for byte, one run per reached file in evaluation order (two chained actions interleave per file), truth == (status 0) seen through labelled -printf, find exits 0 whatever the children do.',
         'Trusts the rec recorder and the reference walker; starting points spelled c/r or ./c/r.', 'DESIGN.md §3 C09'),
 'C18': ('property-based testing: generated lists of starting points (every spelling of one directory, files, links, missing names, duplicates) given as operands or through -files0-from (file / stdin) vs per-root reference walks; metamorphic operands == files0',
         'Exploration: tens of thousands of lists of 0-5 starting points; stdout equals the in-order concatenation of the reference walk of each starting point with its spelling preserved; unexaminable starting points are diagnosed with non-zero exit while the others are still processed; -files0-from lists (names starting with -, containing newlines, empty names, with/without final NUL) equal the operand form whenever expressible.',
         'Trusts the reference walker; -sorted is given; an empty files0 list is not compared with no operands.', 'DESIGN.md §3 C18'),
 'C16': ('property-based testing + bounded-exhaustive enumeration: format strings generated from the statement\'s grammar rendered by find on a tree of every creatable type x starting-point spellings x follow modes vs an independent renderer; identity checks (%p == -print, %H/%P recomposition, %y/%Y vs -type/-xtype); time directives on files with exact generated time stamps vs the decimal stamp, a calendar conversion written in the harness and the composition %X+ == its parts',
         'Exploration: every format of <= 2 (thorough 3) components over a 31-component alphabet plus tens of thousands of random formats (escapes, %%, 15 directives with flag and width, multi-byte literals) on entries of all types under -P/-H/-L and eleven spellings of the starting point, through -printf and -fprintf; output equals the independent rendering byte for byte.',
         'Reference renderer written from the statement over std::fs metadata; padding asserted on ASCII values; %f/%h left open where the last component / the part before it is not in normal form.', 'DESIGN.md §3 C16'),
 'C12': ('differential property-based testing + bounded-exhaustive enumeration against glibc fnmatch(3) (character-level, through transliteration of non-ASCII characters): the matcher behind -name/-path/-lname via a verif-hooks entry point, and end to end on real files and link targets',
         'Exploration: every pattern of <= 4 (thorough 5) symbols over {a b * ? [ ] ! - \\ . /} x every subject of <= 4 symbols over {a b . / - ] NL} in both case modes (~87 million pairs), plus random patterns with classes, ranges, escapes, every regex metacharacter as a literal and multi-byte text against matching-by-construction subjects and their one-edit neighbours, plus find -name/-iname/-path/-ipath/-wholename/-lname/-ilname on files and link targets named by the subjects.',
         'glibc fnmatch is the oracle on the compared domain; constructs POSIX leaves unspecified or where glibc deviates (listed in the evidence as discarded_outside_domain with counts) are not compared; a trailing lone backslash is judged by the statement directly; one known finding (the engine behind the matcher gives up on globs with many stars on long names: reported as no match) is tolerated by its exact signature and probed by a committed fuzz artifact.', 'DESIGN.md §3 C12'),
 'C17': ('property-based testing + bounded-exhaustive enumeration: regex ASTs rendered into each supported syntax vs an independent set-of-end-positions matcher over the AST (whole-path membership); subjects generated from the AST (members, prefixes, extensions); hook tier and end-to-end tier with positional -regextype',
         'Exploration: every AST of <= 4 (thorough 5) nodes x every subject of <= 4 symbols x four syntaxes x both case modes (alternatives also reversed), hundreds of thousands of random ASTs (sets, ranges, intervals, alternation with prefix-sharing branches, literal + and ?) in six syntax names, and tens of thousands of find runs on files named by the subjects with -regextype before / inside / after parentheses or given twice.',
         'The oracle decides membership of the entire path in the language of the AST; only constructs each syntax documents are rendered; nullable loop bodies and more than two nested unbounded repetitions are not generated at random; one known finding (the regex engine gives up on exponentially ambiguous patterns: such members are reported as not matching) is tolerated by its exact signature and probed deterministically.', 'DESIGN.md §3 C17'),
 'C11': ('property-based testing + bounded-exhaustive enumeration: token sequences classified by a reference recogniser (non-sentences must be rejected before any effect: stdout, recorder log, file-system snapshot), a table of invalid operands embedded in expressions with -print/-delete/-exec, and random argument vectors with hostile operands over a tree of odd entries for panic freedom (in process with catch_unwind and through the binary)',
         'Exploration: every sequence of <= 4 (thorough 5) units over a 15-unit alphabet, thousands of mutated valid expressions, ~200 invalid operands x 5 positions, 27 deterministic probes and tens of thousands of random vectors (multi-byte text after % and \\, huge numbers, stray brackets, unmapped owners, entries deleted earlier in the same expression); rejection happens with a diagnostic, non-zero status and no effect; no panic/abort.',
         'One-directional (valid sentences are C01). Trusts the reference recogniser (DESIGN.md appendix A). A hang is only observable as the watchdog (exit 2). One known finding (the regex engine accepts an unterminated bracket expression).', 'DESIGN.md §3 C11'),
}
hooks_commits = subprocess.run(['git','-C','/repo','log','--format=%H %s'],capture_output=True,text=True).stdout.splitlines()
hook_shas = [l.split()[0] for l in hooks_commits if 'verif hooks' in l or 'verif-hooks:' in l]
base = json.load(open('/root/.vp/BASELINE.json'))
checks = []
FUZZ = {'C01','C05','C11','C12','C16','C17'}
for pid,(tech,text,note,ref) in sorted(CLAIMED.items()):
    if pid in FUZZ:
        tech += '; coverage-guided libFuzzer target with the same oracle in the thorough tier'
    checks.append({
        'property_id': pid,
        'quick_cmd': f'./verif check {pid} --tier quick',
        'thorough_cmd': f'./verif check {pid} --tier thorough',
        'evidence_file': f'/verif/evidence/{pid}.json',
        'replay_cmd_template': './verif replay {path}',
        'engine': 'vp-harness',
        'level_claimed': {'category': 'exploration', 'text': text, 'design_ref': ref},
        'level_note': note,
        'technique': tech,
    })
na = [{'property_id': pid, 'reason': 'check not built yet in this round (planned: property-based check per DESIGN.md §3); not claimed until it runs quietly on the unchanged tree'} for pid in sorted(props) if pid not in CLAIMED]
m = {
 'version': 1,
 'setup_cmd': './verif setup',
 'hooks': {
   'guard': 'cargo feature verif-hooks (findutils crate; off by default)',
   'enable': 'the harness crate depends on findutils = { path = "/repo", features = ["verif-hooks"] }; the find/xargs binaries under test are built with default features (hooks off)',
   'baseline_off_cmd': 'cd /repo && cargo test --workspace --no-fail-fast --offline',
   'source_commits': hook_shas,
   'add_only': True,
 },
 'engines': [
   {'name': 'vp-harness', 'path': '/verif/harness', 'serves_properties': sorted(CLAIMED), 'kind_free_text': 'Rust library + binary: proptest TestRunner (fixed seed from VERIF_SEED, shrinking) over a choice stream + bounded-exhaustive enumeration + regression replay; 16 worker processes; reference models as oracles; /verif/fuzz holds libFuzzer targets that call the same property modules'},
 ],
 'checks': checks,
 'not_applicable': na,
 'notes': 'Exit codes: 0 held on everything explored; 1 + VIOLATION line; 2 inconclusive (watchdog/harness guard/build failure), never reported as a violation. known_findings.json lists genuine defects that were recorded or fixed.',
}
json.dump(m, open('/verif/MANIFEST.json','w'), indent=1)
print('claimed', sorted(CLAIMED), 'not claimed', len(na))
