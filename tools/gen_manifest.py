#!/usr/bin/env python3
"""Regenerates /verif/MANIFEST.json from the table below (kept in one place so it stays valid)."""
import json, subprocess
props = {json.loads(l)['id']: json.loads(l) for l in open('/verif/properties.jsonl')}
# id -> (technique, level text, level note, design ref)
CLAIMED = {
 'C01': ('property-based testing: grammar-directed expression generation + bounded-exhaustive token enumeration vs a reference parser/evaluator (proptest, shrinking)',
         'Exploration: every accepted token sequence up to a bound plus thousands of random deep expressions on random trees agree byte-for-byte with an independent reference parser/evaluator/walker. Right level because the property quantifies over an unbounded grammar x trees; no absence claim.',
         'Trusts the reference evaluator (harness/src/engine/expr.rs), the reference walker (plain read_dir/lstat) and -sorted for a defined order; in-process find_main with 1/20 of cases through the binary.', 'DESIGN.md §3 C01'),

 'C02': ('property-based testing: generated trees x follow modes x depth bounds vs an independent reference walker (proptest, shrinking); unprivileged find binary for unreadable directories',
         'Exploration: random trees with every link kind under -P/-H/-L/-follow, all (mindepth,maxdepth) pairs, -depth, several starting points; visited multiset equals the reference walk, cycle/unreadable/missing entries diagnosed with non-zero exit and siblings kept.',
         'Trusts the reference walker (read_dir/lstat/stat + (dev,ino) ancestor chain). ELOOP self-links and the printing of the cycle-closing / unreadable entry itself are left open. One known finding (walkdir, -H -depth root link) is tolerated by exact signature.', 'DESIGN.md §3 C02'),
 'C03': ('property-based testing: bounded-exhaustive small trees x prune subsets + random trees/prune expressions vs reference DFS, with model-independent order invariants; raw-byte sibling order via inode sequence',
         'Exploration: exact visit-sequence equality with the reference DFS for every tree of <=4 (thorough 5) nodes x every prune subset x pre/post order, plus random larger cases and non-UTF-8 sibling names.',
         'Trusts the reference walker/evaluator; -sorted always given. Same known finding as C02 (own signature).', 'DESIGN.md §3 C03'),
 'C04': ('property-based testing: generated argument lists/line layouts/limit combinations against a reference batcher and validity predicates, through the xargs binary and a recorder command',
         'Exploration: thousands of generated inputs x option subsets; observed invocation list equals the reference batcher and independently satisfies losslessness, each limit, and maximality; overflow cases give exit 1 and a prefix of the expected batches.',
         'Trusts the reference batcher (DESIGN.md App. B) and the rec recorder; system ARG_MAX limiter never binding here.', 'DESIGN.md §3 C04'),
 'C05': ('property-based testing + bounded-exhaustive enumeration: all strings over a separator/quote/escape alphabet x all cut sets (chunking invariance, reference splitter), random byte strings x chunkings, delimiter modes; hook + binary end-to-end sample',
         'Exploration: exhaustive over strings up to 6 (thorough 7, and 8 with single cuts) symbols x every way of cutting the stream; random inputs to ~20 KiB straddling the 4096-byte refill edge, invalid UTF-8 included.',
         'Readers reached through the verif-hooks function read_args (chunk-controlled Read); 1/30 random cases also through the real binary and a pipe. Reference splitter covers only what the statement fixes.', 'DESIGN.md §3 C05'),
}
hooks_commits = subprocess.run(['git','-C','/repo','log','--format=%H %s'],capture_output=True,text=True).stdout.splitlines()
hook_shas = [l.split()[0] for l in hooks_commits if 'verif hooks' in l]
base = json.load(open('/root/.vp/BASELINE.json'))
checks = []
for pid,(tech,text,note,ref) in sorted(CLAIMED.items()):
    checks.append({
        'property_id': pid,
        'quick_cmd': f'./verif check {pid} --tier quick',
        'thorough_cmd': f'./verif check {pid} --tier thorough',
        'evidence_file': f'/verif/evidence/{pid}.json',
        'replay_cmd_template': './verif replay {path}',
        'engine': 'vp-harness',
        'level_claimed': {'category': 'exploration', 'text': text, 'design_ref': ref},
        'level_note': note,
        'technique': tech,
    })
na = [{'property_id': pid, 'reason': 'check not built yet in this round (planned: property-based check per DESIGN.md §3); not claimed until it runs quietly on the unchanged tree'} for pid in sorted(props) if pid not in CLAIMED]
m = {
 'version': 1,
 'setup_cmd': './verif setup',
 'hooks': {
   'guard': 'cargo feature verif-hooks (findutils crate; off by default)',
   'enable': 'the harness crate depends on findutils = { path = "/repo", features = ["verif-hooks"] }; the find/xargs binaries under test are built with default features (hooks off)',
   'baseline_off_cmd': 'cd /repo && cargo test --workspace --no-fail-fast --offline',
   'source_commits': hook_shas,
   'add_only': True,
 },
 'engines': [
   {'name': 'vp-harness', 'path': '/verif/harness', 'serves_properties': sorted(CLAIMED), 'kind_free_text': 'Rust binary: proptest TestRunner (fixed seed from VERIF_SEED, shrinking) over a choice stream + bounded-exhaustive enumeration + regression replay; 16 worker processes; reference models as oracles'},
 ],
 'checks': checks,
 'not_applicable': na,
 'notes': 'Exit codes: 0 held on everything explored; 1 + VIOLATION line; 2 inconclusive (watchdog/harness guard/build failure), never reported as a violation. known_findings.json lists genuine defects that were recorded or fixed.',
}
json.dump(m, open('/verif/MANIFEST.json','w'), indent=1)
print('claimed', sorted(CLAIMED), 'not claimed', len(na))
