#!/bin/bash
# Re-evaluates every seeded change against the current /repo HEAD and the current checks (quick tier),
# updates each meta.json and writes seeded/SUMMARY.md.  /repo must be clean; it is restored after each run.
cd /verif || exit 2
if ! git -C /repo diff --quiet; then echo "/repo has uncommitted changes"; exit 2; fi
head=$(git -C /repo log --format=%h -1)
out=seeded/SUMMARY.md
{ echo "# Seeded changes vs the quick tier (re-evaluated at /repo $head, /verif $(git log --format=%h -1))"; echo; echo "| seed | check | detected | first signature |"; echo "|---|---|---|---|"; } > $out
for d in seeded/*/; do
  name=$(basename $d)
  [ -f $d/patch.diff ] || continue
  base=${name%%-*}; id=${base%%r[0-9]*}
  extra=$(python3 -c "import json;m=json.load(open('$d/meta.json'));print(' '.join(c['check'] for c in m.get('checks',[]) if c['check']!='$id'))" 2>/dev/null)
  if ! (git -C /repo apply --check /verif/$d/patch.diff 2>/dev/null || git -C /repo apply -C1 --check /verif/$d/patch.diff 2>/dev/null); then
    echo "| $name | $id | patch does not apply to $head (needs porting) | |" >> $out
    echo "$name: does not apply"
    continue
  fi
  tools/eval_seed.sh $name $id $extra > /dev/null 2>&1
  python3 - "$d/meta.json" "$name" >> $out <<'P'
import json,sys
m=json.load(open(sys.argv[1]))
for c in m['checks']:
    print(f"| {sys.argv[2]} | {c['check']} | {'yes' if c.get('detected') else 'NO'} | `{c.get('first_signature','')[:90]}` |")
P
  echo "$name: done"
done
git -C /repo diff --quiet || git -C /repo checkout -- .
