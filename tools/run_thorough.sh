#!/bin/bash
# Runs the thorough tier of every check once (from whatever copy of the tree this script sits in) and
# prints one line per property; used through `vp run -- tools/run_thorough.sh` on a snapshot.
cd "$(dirname "$0")/.."
./verif setup || exit 2
for id in ${*:-C01 C02 C03 C04 C05 C06 C07 C08 C09 C10 C11 C12 C13 C14 C15 C16 C17 C18 C19 C20}; do
  s=$(date +%s)
  ./verif check $id --tier thorough > target/logs/thorough-$id.log 2>&1; rc=$?
  echo "== $id exit=$rc $(( $(date +%s) - s ))s: $(tail -1 target/logs/thorough-$id.log | cut -c1-200)"
  grep -E "^(VIOLATION|INCONCLUSIVE)|signature:" target/logs/thorough-$id.log | head -12 | cut -c1-250
done
