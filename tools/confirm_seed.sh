#!/bin/bash
# usage: tools/confirm_seed.sh <ID> <mN>
# Confirms a sub-agent's seeded change in its scratch worktree (demo fails with it / passes without it,
# the pinned suite still passes with it) and files it under /verif/seeded/<ID>-<mN>/ (tools/eval_seed.sh then runs the checks).
set -u
id=$1; m=$2; 
wt=/tmp/wt/$id; src=/tmp/wtout/$id/$m; dst=/verif/seeded/$id-$m
[ -f $src/patch.diff ] || { echo "no patch"; exit 2; }
cd $wt || exit 2
git checkout -q -- . ; git clean -fdq test_data 2>/dev/null
git apply $src/patch.diff || { echo "patch does not apply in worktree"; exit 3; }
bash $src/demo.sh $wt > /tmp/confirm.$$.demo1 2>&1; d1=$?
cargo test --workspace --no-fail-fast --offline > /tmp/confirm.$$.test 2>&1
passed=$(grep -E "^test result" /tmp/confirm.$$.test | sed -E 's/.* ([0-9]+) passed.*/\1/' | paste -sd+ | bc)
failed=$(grep -E "^test .* \.\.\. FAILED" /tmp/confirm.$$.test | sed -E 's/^test (.*) \.\.\. FAILED/\1/' | sort | paste -sd,)
git apply -R $src/patch.diff
bash $src/demo.sh $wt > /tmp/confirm.$$.demo0 2>&1; d0=$?
git checkout -q -- . ; git clean -fdq test_data 2>/dev/null
echo "demo with patch: exit $d1 ($(tail -1 /tmp/confirm.$$.demo1)); without: exit $d0 ($(tail -1 /tmp/confirm.$$.demo0)); tests passed=$passed failed=[$failed]"
ok=false
if [ $d1 -ne 0 ] && [ $d0 -eq 0 ] && [ "$passed" = "282" ] && [ "$failed" = "find::matchers::tests::get_or_create_file_test,find::tests::test_no_permission_file_error" ]; then ok=true; fi
echo "confirmed=$ok"
rm -f /tmp/confirm.$$.*
$ok || exit 1
mkdir -p $dst; cp $src/patch.diff $src/demo.sh $dst/; cp $src/notes.md $dst/notes.md 2>/dev/null
cat > $dst/meta.json <<M
{
 "property": "${id%%r[0-9]*}",
 "origin": "fresh sub-agent given only the property text and a scratch worktree of /repo",
 "needs_to_manifest": "see notes.md",
 "confirmed": {"demo_with_patch_exit": $d1, "demo_without_patch_exit": $d0, "suite_passed": $passed, "suite_failed": "$failed", "how": "tools/confirm_seed.sh in the scratch worktree (git apply; demo.sh; cargo test --workspace --no-fail-fast --offline; git apply -R; demo.sh)"},
 "checks": []
}
M
