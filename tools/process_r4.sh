#!/bin/bash
# usage: tools/process_r4.sh <ID> [extra-check...] — confirm both mutants of a round-4 sub-agent in its worktree, file them, evaluate
id=$1; shift
for m in m1 m2; do
  [ -f /tmp/wtout/$id/$m/patch.diff ] || { echo "$id $m: no patch"; continue; }
  echo "=== $id $m"; tools/confirm_seed.sh $id $m || continue
  tools/eval_seed.sh $id-$m ${id%%r[0-9]*} "$@"
done
