#!/bin/bash
# usage: tools/try_revert.sh <commit> <ID> [tier] — temporarily revert a fix commit in /repo's working tree, run the check, undo.
set -u
c=$1; id=$2; tier=${3:-quick}
cd /repo || exit 2
if ! git diff --quiet; then echo "/repo has uncommitted changes"; exit 2; fi
git show "$c" | git apply -R || { echo "REVERT DOES NOT APPLY"; exit 3; }
cd /verif && ./verif check "$id" --tier "$tier" > /tmp/try_revert.$$.log 2>&1; rc=$?
git -C /repo checkout -- .
grep -E "^(VIOLATION|KNOWN|INCONCLUSIVE|BUILD)|signature:" /tmp/try_revert.$$.log | head -12 | cut -c1-300
tail -1 /tmp/try_revert.$$.log | cut -c1-300
rm -f /tmp/try_revert.$$.log
echo "exit=$rc"
