#!/bin/bash
# usage: tools/eval_seed.sh <ID-mN> [check-ID...]   — apply seeded/<ID-mN>/patch.diff to /repo, run the quick check(s), undo, record in meta.json
set -u
name=$1; shift; dst=/verif/seeded/$name
base=${name%%-*}; checks=${*:-${base%%r[0-9]*}}
for c in $checks; do
  out=$(/verif/tools/try_patch.sh $dst/patch.diff $c quick 2>&1)
  echo "--- $name check $c"; echo "$out" | grep -E "signature|exit=|PATCH" | head -4
  rc=$(echo "$out" | grep -oE "exit=[0-9]+" | tail -1 | cut -d= -f2)
  sig=$(echo "$out" | grep -m1 "signature:" | sed 's/.*signature: //')
  python3 - "$dst/meta.json" "$c" "$rc" "$sig" <<'P'
import json,sys
f,c,rc,sig=sys.argv[1:5]
m=json.load(open(f))
m['checks']=[x for x in m.get('checks',[]) if x['check']!=c]+[{"check":c,"tier":"quick","exit":int(rc or -1),"detected":rc=="1","first_signature":sig}]
json.dump(m,open(f,'w'),indent=1)
P
done
