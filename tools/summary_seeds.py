#!/usr/bin/env python3
# Writes seeded/SUMMARY.md from the seeded/*/meta.json files (as left by tools/eval_seed.sh).
import json,glob,os,subprocess
rows=[]
for d in sorted(glob.glob('/verif/seeded/*/')):
    name=os.path.basename(d.rstrip('/'))
    f=d+'meta.json'
    if not os.path.exists(f): continue
    m=json.load(open(f))
    checks=m.get('checks',[])
    caught=[c for c in checks if c.get('detected')]
    note=''
    if m.get('equivalent_since'): note='equivalent since '+m['equivalent_since'].split(':')[0]
    elif m.get('ported'): note='ported'
    for c in checks:
        rows.append(f"| {name} | {c['check']} | {'yes' if c.get('detected') else ('no (caught by '+', '.join(x['check'] for x in caught)+')' if caught else ('equivalent' if m.get('equivalent_since') else 'NO'))} | `{c.get('first_signature','')[:90]}` | {note} |")
head=subprocess.run(['git','-C','/repo','log','--format=%h','-1'],capture_output=True,text=True).stdout.strip()
out=[f"# Seeded changes vs the quick tier (re-evaluated at /repo {head})","","| seed | check | detected | first signature | note |","|---|---|---|---|---|"]+rows
open('/verif/seeded/SUMMARY.md','w').write('\n'.join(out)+'\n')
print(len(rows),'rows;', sum(1 for r in rows if '| NO |' in r),'undetected')
