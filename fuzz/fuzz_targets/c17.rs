#![no_main]
// libFuzzer target for property C17: the oracle lives in vp_harness::props::c17::fuzz_one.
libfuzzer_sys::fuzz_target!(|data: &[u8]| {
    vp_harness::fuzz_entry("C17", data);
});
