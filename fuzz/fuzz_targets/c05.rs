#![no_main]
// libFuzzer target for property C05: the oracle lives in vp_harness::props::c05::fuzz_one.
libfuzzer_sys::fuzz_target!(|data: &[u8]| {
    vp_harness::fuzz_entry("C05", data);
});
