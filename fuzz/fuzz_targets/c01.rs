#![no_main]
// libFuzzer target for property C01: the oracle lives in vp_harness::props::c01::fuzz_one.
libfuzzer_sys::fuzz_target!(|data: &[u8]| {
    vp_harness::fuzz_entry("C01", data);
});
